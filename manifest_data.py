# Per-property claims; MANIFEST.json is generated from this by mkmanifest.py
TECH = "contract-based deductive verification: weakest-precondition VCs over go/ssa from contracts in //@ comment files, discharged by z3/cvc5"
TRUST = ("Trusted: go/types + go/ssa, govc's SSA-to-SMT translation and memory model, the solvers, spec functions in contracts/prelude.spec "
         "(transcribed from RFC 6733), exact models of encoding/binary, net.IP.To4/To16, time.Unix. ")
checks = {
 "C04": dict(level="proof",
   text="Every AVP-framing obligation is discharged by an SMT solver for all inputs: the two decode loops (message body, grouped payload) carry the invariant 'n is a boundary of the reference framer and the number of AVPs decoded equals the number of frames before n', where the reference framer walks declared lengths rounded up to four; each decoder carries 'payload length and bytes preserved'. No bound on lengths, counts or nesting (recursion by contract).",
   note=TRUST + "The lenient fixed-width decoders and DecodeAddress violate the per-type clauses for payloads of unexpected length; they are listed in KNOWN_FINDINGS.txt with witness classes and re-checked outside the class on every run. Payload/cursor clause of DecodeFromBytes is claimed for non-grouped data; for grouped data the framing is proved by the recursive contract of DecodeGrouped.",
   technique=TECH, ref="6 C04"),
 "C16": dict(level="proof",
   text="Message.Answer, NewMessage and Message.NewAVP carry postconditions taken from the statement (command code, application id, both identifiers for all 2^64 pairs including zero, flags with only the R bit cleared, Result-Code AVP iff asked for, stream copied); each is discharged for all inputs.",
   note=TRUST + "The state machine's CEA/DWA builders and the transport stream chain (WriteTo -> response.WriteStream -> SCTPWrite) are not yet under contract in this check.",
   technique=TECH, ref="6 C16"),
}
checks["C02"] = dict(level="proof",
   text="Each codec function is checked against a spec function transcribed from RFC 6733 (header layout, AVP header, V flag / vendor id, 24-bit big-endian lengths, per-type encodings incl. the 1900-epoch Time with the 2036 era rule, pad-to-four), for all inputs at machine-integer width: uint24to32/uint32to24 and pad4 over their whole domain, every fixed-width decoder/encoder over every 32/64-bit payload, Header.SerializeTo/DecodeFromBytes, AVP.SerializeTo (header fields, vendor id, frame), AVP.Len, NewAVP. The length bookkeeping is proved per operation: NewMessage starts at 20, AddAVP / InsertAVP / Message.NewAVP add exactly the padded length of the AVP they add and place it at the end / front leaving the others in place, Message.Len and GroupedAVP.Len compute 20 + / the sum of the padded lengths (loop invariants over a recursively defined sum).",
   note=TRUST + "That MessageLength == Len() after every history is the induction over these per-operation facts; the induction step is machine-checked, its composition over a history is not. AddAVP/InsertAVP/Message.NewAVP are proved for non-grouped data (no frame rule for the recursive well-formedness predicate across the append). AVP.SerializeTo's payload-bytes and zero-padding clauses are thorough-tier obligations (quantified; minutes of solver time). Marshal is reflection (C18). sumlen's unfolding / non-negativity lemmas are stated as axioms (induction not machine-checked). Address decoding findings are shared with C04.",
   technique=TECH, ref="6 C02")
checks["C03"] = dict(level="proof",
   text="Zero-annotation safety sweep: for every function under contract on the decode path (Header/AVP/grouped/message-body decoders, all datatype decoders, uint24, pad4, the serialisers used for re-serialisation) every index, slice, type assertion, nil dereference, division and make() is a proof obligation discharged for all inputs; the two defects it found (V-flag short header, *Time from DecodeTime) are fixed and kept as must-fail canaries.",
   note=TRUST + "Not yet covered by this check: the allocation bound of readerBufferSlice (see C05), recursion depth of DecodeGrouped, String/PrettyDump rendering, Unmarshal (reflection, C18), AVP search.",
   technique=TECH, ref="6 C03")
not_applicable = []
