#!/bin/bash
# Must-fail corpus: every patch in selftest/mutants/ breaks one property while compiling and passing the tests.
# Each is applied to a scratch worktree of /repo (outside /repo and /verif), the property's check is run against it
# (VERIF_REPO), and a VIOLATION naming the expected obligation is required. Harmless patches (selftest/harmless/)
# must keep the check green. Usage: selftest/run.sh [name-filter]
set -u
cd "$(dirname "$0")/.."
export GOFLAGS=-mod=mod GOPROXY=off GOSUMDB=off GOTOOLCHAIN=local
[ -x bin/govc ] || ./setup.sh >/dev/null
FILTER="${1:-}"
# SHARD=i/n runs every n-th patch starting at the i-th (0-based), so that several shards can run side by side
SHARD="${SHARD:-0/1}"; SHARD_I="${SHARD%%/*}"; SHARD_N="${SHARD##*/}"
fail=0; n=0; k=0
run_one() {
  local patch="$1" kind="$2"
  local name=$(basename "$patch" .patch)
  [ -n "$FILTER" ] && [[ "$name" != *$FILTER* ]] && return
  k=$((k+1)); [ $(( (k-1) % SHARD_N )) -eq "$SHARD_I" ] || return
  local prop=$(grep -m1 '^# property:' "$patch" | awk '{print $3}')
  local expect=$(grep -m1 '^# expect:' "$patch" | sed 's/^# expect: *//')
  local wt=$(mktemp -d /tmp/govc-selftest-XXXXXX)
  local out=$(mktemp -d /tmp/govc-selftest-out-XXXXXX)
  rmdir "$wt"
  git -C /repo worktree add -q --detach "$wt" HEAD || { echo "ERROR worktree"; return; }
  # carry uncommitted contract files of the working tree (hooks under development)
  (cd /repo && git ls-files -m -o --exclude-standard | grep contracts_verif.go | while read f; do cp "/repo/$f" "$wt/$f"; done)
  if ! git -C "$wt" apply "$PWD/$patch" 2>/dev/null; then echo "ERROR $name: patch does not apply"; fail=1; git -C /repo worktree remove --force "$wt"; rm -rf "$out"; return; fi
  n=$((n+1))
  local log=$(VERIF_REPO="$wt" VERIF_OUT="$out" timeout 1200 bin/govc -check -prop "$prop" -tier quick 2>&1)
  if [ "$kind" = mutant ]; then
    if echo "$log" | grep -q "^VIOLATION property=$prop .*$expect"; then echo "ok    $name: caught by $(echo "$log" | grep "^VIOLATION" | grep -F -- "$expect" | head -1 | sed 's/.*obligation=//')"
    else echo "MISS  $name: expected a VIOLATION of $prop naming '$expect'"; echo "$log" | tail -3; fail=1; fi
  else
    if echo "$log" | grep -q "^VIOLATION"; then echo "FALSE-ALARM $name"; echo "$log" | grep "^VIOLATION" | head -3; fail=1; else echo "ok    $name (harmless, stays green)"; fi
  fi
  git -C /repo worktree remove --force "$wt"; rm -rf "$out"
}
for p in selftest/mutants/*.patch; do [ -e "$p" ] && run_one "$p" mutant; done
for p in selftest/harmless/*.patch; do [ -e "$p" ] && run_one "$p" harmless; done
echo "selftest: $n patches, failures=$fail"
exit $fail
