package diam

// Engine canaries (never part of /repo): small functions whose contracts are deliberately wrong, or right only with the
// loop invariant given. selftest/engine/run.sh copies this file and contracts.txt into a scratch worktree and requires
// the verdicts listed in expect.txt.

func canaryLoopStore(p *Header, n int) {
	p.Version = 0
	for i := 0; i < n; i++ {
		p.Version = 1
	}
}

func canaryLoopStoreOK(p *Header, n int) {
	p.Version = 0
	for i := 0; i < n; i++ {
		p.Version = 1
	}
}

func canaryLoopMap(m map[int]bool, n int) bool {
	for i := 0; i < n; i++ {
		m[i] = true
	}
	return m[0]
}

func canaryMapFrame(m map[int]bool) {
	m[1] = true
}

func canaryMapDeleteFrame(m map[int]bool) {
	delete(m, 1)
}

func canaryLoopElem(b []byte) {
	if len(b) == 0 {
		return
	}
	b[0] = 0
	for i := range b {
		b[i] = 1
	}
}

func canaryClosureCell(n int) int {
	x := 0
	f := func() { x = 1 }
	for i := 0; i < n; i++ {
		f()
	}
	return x
}

func canaryDeferStore(p *Header) {
	defer func() { p.Version = 1 }()
	p.Version = 0
}

func canaryOverflow(a, b int32) int32 {
	return a + b
}

func canaryAlias(a, b []byte) {
	a[0] = 1
	b[0] = 2
}

func canaryMapOrder(m map[int]bool) int {
	for k, v := range m {
		if v || !v {
			return k
		}
	}
	return 0
}

func canaryEscapeHelper(p *int) { *p = 1 }

func canaryEscape() int {
	x := 0
	canaryEscapeHelper(&x)
	return x
}

func canaryDiv(a, b int) int {
	return a / b
}

func canaryShift(n uint) uint64 {
	return uint64(1) << n
}

func canaryTrunc(x int) uint8 {
	return uint8(x)
}

func canaryNested(p *Header, n int) {
	p.Version = 0
	for i := 0; i < n; i++ {
		for j := 0; j < n; j++ {
			p.Version = 2
		}
	}
}

func canaryStructCopy(p *Header) uint8 {
	q := *p
	q.Version = 7
	return p.Version
}

func canaryNamedResult() (r int) {
	defer func() { r = 1 }()
	return 0
}

func canaryTwoPointers(p, q *Header) {
	p.Version = 1
	q.Version = 2
}

func canarySubslice(a []byte) {
	b := a[1:]
	b[0] = 5
}

func canaryAppendAlias(a []byte) []byte {
	return append(a[:1], 9)
}

var canaryGlobal int

func canaryGlobalStore(n int) {
	for i := 0; i < n; i++ {
		canaryGlobal = 1
	}
}

func canaryCallee(p *Header) { p.Version = 3 }

func canaryCaller(p *Header) {
	p.Version = 0
	canaryCallee(p)
}

func canaryUnderflow(a, b uint32) uint32 {
	return a - b
}

func canarySignedDiv(a int) int {
	return a / 2
}

func canaryBreak(p *Header, n int) {
	p.Version = 0
	for i := 0; i < n; i++ {
		if i == 3 {
			p.Version = 9
			break
		}
	}
}

func canaryTypedNil() bool {
	var p *Header
	var i interface{} = p
	return i == nil
}

func canarySignExtend(x int8) uint32 {
	return uint32(x)
}

func canaryGoCell() int {
	x := 0
	done := make(chan bool)
	go func() { x = 1; done <- true }()
	<-done
	return x
}

func canaryArrayValue(a [4]byte) byte {
	b := a
	b[0] = 1
	return a[0]
}

func canaryGoLoop(p *Header, n int, ch chan bool) uint8 {
	p.Version = 0
	var v uint8
	for i := 0; i < n; i++ {
		<-ch
		v = p.Version
		go func() { p.Version = 1 }()
	}
	return v
}

func canaryDeferOrder(p *Header) {
	defer func() { p.Version = 1 }()
	defer func() { p.Version = 2 }()
}

func canaryStringBytes(s string) byte {
	b := []byte(s)
	b[0] = 'x'
	return s[0]
}

func canaryWrap8(a uint8) uint8 {
	return a + 100
}

func canaryNilMapRead() bool {
	var m map[int]bool
	return m[3]
}

func canaryDistinctAllocs() bool {
	a, b := new(Header), new(Header)
	a.Version = 1
	return a != b && b.Version == 0
}

func canaryUnknownAlias(p *Header, f func(*Header) *Header) {
	q := f(p)
	p.Version = 0
	if q != nil {
		q.Version = 1
	}
}

func canaryRetHelper(p *Header) *Header { return p }

func canaryRetAlias(p *Header) {
	q := canaryRetHelper(p)
	p.Version = 0
	if q != nil {
		q.Version = 1
	}
}

func canarySwitchFall(x int) int {
	r := 0
	switch x {
	case 1:
		r = 1
		fallthrough
	case 2:
		r += 10
	default:
		r = 5
	}
	return r
}

func canaryFieldFrame(p *Header) {
	p.CommandFlags = 1
}

func canaryFrameCallee(p *Header) { p.Version = 3 }

func canaryFrameCaller(p *Header) uint8 {
	p.CommandFlags = 4
	canaryFrameCallee(p)
	return p.CommandFlags
}

func canaryEachRoundHelper(p *Header, v uint8) { p.Version = v }

func canaryEachRoundSkips(p *Header, vs []uint8) {
	for _, v := range vs {
		if v == 7 {
			continue
		}
		canaryEachRoundHelper(p, v)
	}
}

func canaryEachRoundAll(p *Header, vs []uint8) {
	for _, v := range vs {
		canaryEachRoundHelper(p, v)
	}
}

func canaryLoopFrame(p *Header, n int) {
	for i := 0; i < n; i++ {
		p.Version = 1
		p.CommandFlags = 2
	}
}

func canaryLoopFrameCall(p *Header, n int) {
	for i := 0; i < n; i++ {
		canaryFieldFrame2(p)
	}
}

func canaryFieldFrame2(p *Header) { p.CommandFlags = 1 }

func canarySetVersion(p *Header, v uint8) { p.Version = v }

func canaryDeferArgs(p *Header) {
	v := uint8(1)
	defer canarySetVersion(p, v)
	v = 2
	_ = v
}

func canaryOverlapCopy(a []byte) {
	copy(a[1:], a)
}

func canaryBeyondLen(a []byte) {
	b := a[:cap(a)]
	if len(b) > len(a) {
		b[len(a)] = 1
	}
}

func canarySignedShift(x int64, n uint) int64 {
	return x >> n
}

func canaryUintToInt(x uint64) int {
	return int(x)
}

func canaryFieldPointer(p *Header) {
	q := &p.Version
	*q = 5
}

func canaryMapOfPointers(m map[int]*Header) {
	if h := m[1]; h != nil {
		h.Version = 3
	}
}

func canaryNotPure(p *Header) uint8 {
	p.Version = 1
	return p.Version
}

type canaryIface interface{ Get(p *Header) uint8 }
type canaryImpl struct{}

func (canaryImpl) Get(p *Header) uint8 { p.Version = 4; return 4 }

func canaryUseImpl(p *Header) uint8 {
	var i canaryIface = canaryImpl{}
	return i.Get(p)
}

func canaryNeedsNonNil(p *Header) uint8 { return p.Version }

func canaryPassesNil() uint8 {
	return canaryNeedsNonNil(nil)
}

func canaryNoFrameCallee(q *Header) { q.Version = 9 }

func canaryNoFrameCaller(p, q *Header) {
	p.Version = 0
	canaryNoFrameCallee(q)
}

func canaryOldAtCall(p *Header) {
	p.Version = 1
	canaryIncr(p)
}

func canaryIncr(p *Header) { p.Version++ }

func canaryPad4(n int) int { return (n + 3) &^ 3 }

func canaryFullSlice(a []byte) []byte {
	b := a[0:1:1]
	b = append(b, 7)
	return b
}

func canaryRecover(p *Header) (r int) {
	defer func() {
		if recover() != nil {
			r = 5
		}
	}()
	var q *Header
	p.Version = q.Version
	return 1
}

func canaryTypeAssert(v interface{}) int {
	return v.(int)
}

func canaryRangeChan(ch chan int) int {
	s := 0
	for v := range ch {
		s += v
	}
	return s
}

func canaryOfferOnly(ch chan int, v int) {
	select {
	case ch <- v:
	default:
	}
}

func canaryOfferThenWait(ch chan int, v int) {
	select {
	case ch <- v:
	default:
		ch <- v
	}
}

func canaryWaitsInSelect(ch chan int, done chan struct{}, v int) {
	select {
	case ch <- v:
	case <-done:
	}
}

func canaryPlainReceive(ch chan int) int {
	return <-ch
}
