#!/bin/bash
# Engine canaries: the generator must refute deliberately wrong contracts over loops, maps and frames, and must accept
# the right one. Runs on a scratch worktree of /repo (outside /repo and /verif), removed afterwards.
set -u
cd "$(dirname "$0")/../.."
export GOFLAGS=-mod=mod GOPROXY=off GOSUMDB=off GOTOOLCHAIN=local
[ -x bin/govc ] || ./setup.sh >/dev/null
wt=$(mktemp -d /tmp/govc-engine-XXXXXX); rmdir "$wt"
git -C /repo worktree add -q --detach "$wt" HEAD || exit 2
cp selftest/engine/zz_enginetest.go "$wt/diam/"
cat selftest/engine/contracts.txt >> "$wt/diam/contracts_verif.go"
fail=0
for fn in $(grep -v '^#' selftest/engine/expect.txt | awk '{print $1}' | sort -u); do
  log=$(bin/govc -repo "$wt" -fn "$fn" -v 2>&1)
  while read f obl verdict; do
    [ "$f" = "$fn" ] || continue
    lines=$(echo "$log" | grep -F "#$obl")
    # FAIL: some obligation of that name is refuted; ok: there is one and all of them are discharged
    if echo "$lines" | grep -q "^FAIL "; then line=$(echo "$lines" | grep "^FAIL " | head -1); else line=$(echo "$lines" | head -1); fi
    if echo "$line" | grep -q "^$verdict "; then echo "ok    $fn $obl: $verdict"
    else echo "WRONG $fn $obl: expected $verdict, got: ${line:-nothing}"; fail=1; fi
  done < <(grep -v '^#' selftest/engine/expect.txt)
done
git -C /repo worktree remove --force "$wt"
echo "engine canaries: failures=$fail"
exit $fail
