#!/bin/bash
# MANIFEST.setup_cmd: build the verifier from files on disk only (offline).
set -e
cd "$(dirname "$0")"
export GOFLAGS=-mod=mod GOPROXY=off GOSUMDB=off GOTOOLCHAIN=local
mkdir -p bin evidence
(cd engine && go build -o ../bin/govc .)
echo "govc built"
