#!/bin/bash
# Runs every claimed check (quick tier) on the unchanged tree; any VIOLATION here is a false alarm or a new finding.
# Run after EVERY engine or contract change, before committing.
cd "$(dirname "$0")"
bad=0
for p in $(python3 -c "import json;print(' '.join(c['property_id'] for c in json.load(open('MANIFEST.json'))['checks']))"); do
  out=$(./check $p quick 2>&1); rc=$?
  echo "$out" | grep -v '^KNOWN' | tail -1 | cut -c1-170
  if [ $rc -ne 0 ] || echo "$out" | grep -q '^VIOLATION'; then bad=1; echo "$out" | grep '^VIOLATION' | head -3 | cut -c1-220; fi
done
# the generator itself: deliberately wrong contracts over loops, maps and frames must be refuted (selftest/engine)
selftest/engine/run.sh | tail -1; [ ${PIPESTATUS[0]} -eq 0 ] || bad=1
[ $bad = 0 ] && echo "regress: all green" || echo "regress: ALARMS ON THE UNCHANGED TREE"
exit $bad
