#!/usr/bin/env python3
# Regenerates MANIFEST.json from the table below (kept in one place so it stays valid).
import json, subprocess
checks = {
 "C04": dict(level="proof",
   text="Every AVP-framing obligation is discharged by an SMT solver for all inputs: the two decode loops (message body, grouped payload) carry the invariant 'n is a boundary of the reference framer and the number of AVPs decoded equals the number of frames before n', where the reference framer walks declared lengths rounded up to four; each decoder carries 'payload length and bytes preserved'. No bound on lengths, counts or nesting (recursion by contract).",
   note="Trusted: go/ssa, govc's translation, the solvers, the spec functions in contracts/prelude.spec (reference framer, RFC layout), exact models of encoding/binary and net.IP.To4/To16. The lenient fixed-width decoders and DecodeAddress violate the per-type clauses for payloads of unexpected length; they are listed in KNOWN_FINDINGS.txt with witness classes and re-checked outside the class on every run. Payload/cursor clause of DecodeFromBytes is claimed for non-grouped data; for grouped data the framing is proved by the recursive contract of DecodeGrouped.",
   technique="contract-based deductive verification: weakest-precondition VCs over go/ssa, loop invariants, discharged by z3/cvc5",
   ref="6 C04"),
}
na = []
def build():
    hooks_commits = subprocess.run(["git","-C","/repo","log","--format=%H %s"],capture_output=True,text=True).stdout.strip().split("\n")
    src = [l.split()[0] for l in hooks_commits if "verif hooks" in l]
    m = {
     "version": 1,
     "setup_cmd": "./setup.sh",
     "hooks": {"guard": "verif", "enable": "go build -tags verif (govc loads /repo with -tags=verif; the guarded files are comment-only contract files named contracts_verif.go)",
               "baseline_off_cmd": "cd /repo && GOFLAGS=-mod=mod GOPROXY=off GOSUMDB=off go test -json -vet=off -count=1 -timeout 25m ./...",
               "source_commits": src, "add_only": True},
     "engines": [{"name": "govc", "path": "/verif/engine", "serves_properties": sorted(k for k in checks.keys() if k != "C18"),
                  "kind_free_text": "verification-condition generator for Go written for this task: go/packages + go/ssa front end on /repo's working tree, contracts in //@ comment files, weakest preconditions as SMT-LIB (bit-vectors at exact width, array heap), z3 5.1 / z3 4.8.12 / cvc5 raced per obligation, counterexamples replayed on the real code with go test -overlay"},
                 {"name": "c18harness", "path": "/verif/bounded/c18", "serves_properties": ["C18"],
                  "kind_free_text": "bounded exploration harness (Go program built against /repo on every run) standing in for reflect.go, which is outside govc's subset; labelled bounded, proves nothing"}],
     "checks": [], "not_applicable": na,
     "notes": "Contracts live in /repo/**/contracts_verif.go (//go:build verif) and /verif/contracts/*.spec. Known findings: /verif/KNOWN_FINDINGS.txt. Obligation ledgers: /verif/ledger/. See DESIGN.md.",
    }
    for pid in sorted(checks):
        c = checks[pid]
        m["checks"].append({
          "property_id": pid, "quick_cmd": f"./check {pid} quick", "thorough_cmd": f"./check {pid} thorough",
          "evidence_file": f"/verif/evidence/{pid}.json", "replay_cmd_template": "cat {path}", "engine": ("c18harness" if pid == "C18" else "govc"),
          "level_claimed": {"category": c["level"], "text": c["text"], "design_ref": c["ref"]},
          "level_note": c["note"], "technique": c["technique"]})
    return m
if __name__ == "__main__":
    import sys
    sys.path.insert(0, "/verif")
    try:
        import manifest_data
        checks.clear(); checks.update(manifest_data.checks); na[:] = manifest_data.not_applicable
    except ImportError:
        pass
    json.dump(build(), open("/verif/MANIFEST.json","w"), indent=1)
    print("MANIFEST.json written:", len(checks), "checks,", len(na), "not applicable")
