package main

// Evaluation of spec expressions to SMT terms, modifies-targets, frame checks.

import (
	"regexp"
	"fmt"
	"go/ast"
	"go/constant"
	"go/token"
	"go/types"
	"math/big"
	"os"
	"strings"

	"golang.org/x/tools/go/ssa"
)

var idxProbe func(inner, idx string)

type Env struct {
	fc       *FnCtx
	vars     map[string]V
	bound    map[string]V
	cur, old *State
	at       *ssa.BasicBlock
	contract *Contract
	oldAc    string
	pkg      *types.Package
	depth    int
	phiNames map[string]bool
}

func (fc *FnCtx) newEnv(cur, old *State) *Env {
	env := &Env{fc: fc, vars: map[string]V{}, bound: map[string]V{}, cur: cur, old: old, oldAc: old.ac}
	for k, v := range fc.params {
		env.vars[k] = v
	}
	if fc.fn.Pkg != nil {
		env.pkg = fc.fn.Pkg.Pkg
	} else if fc.fn.Parent() != nil && fc.fn.Parent().Pkg != nil {
		env.pkg = fc.fn.Parent().Pkg.Pkg
	}
	return env
}

func specErr(format string, a ...interface{}) unsupportedErr {
	return unsupportedErr{"spec: " + fmt.Sprintf(format, a...)}
}

func (env *Env) evalBool(x Expr) string {
	v := env.eval(x)
	if v.B != nil {
		if *v.B {
			return "true"
		}
		return "false"
	}
	if v.Ty == nil || !isBoolean(v.Ty) {
		panic(specErr("boolean expected, got %v in %s", v.Ty, exprString(x)))
	}
	return v.T[0]
}

func boolV(t string) V { return V{Ty: types.Typ[types.Bool], T: []string{t}} }

func (env *Env) constTo(v V, t types.Type) V {
	if v.C == nil {
		return v
	}
	if t == nil {
		t = types.Typ[types.Int]
	}
	cs := env.fc.e.comps(t)
	if len(cs) != 1 || bvWidth(cs[0].Sort) == 0 {
		panic(specErr("constant %s used at type %s", v.C, t))
	}
	w := bvWidth(cs[0].Sort)
	m := new(big.Int).Lsh(big.NewInt(1), uint(w))
	c := new(big.Int).Mod(v.C, m)
	return V{Ty: t, T: []string{bvLit(c.Uint64(), w)}}
}

func (env *Env) eval(x Expr) V {
	fc := env.fc
	switch e := x.(type) {
	case *ENum:
		return V{C: e.Val}
	case *EStr:
		return V{Ty: types.Typ[types.String], T: []string{fc.strLit(e.S)}}
	case *EIdent:
		return env.ident(e.Name)
	case *EUn:
		if e.Op == "&" {
			// address of a field: a pointer value that denotes the location
			if id, ok := e.X.(*EIdent); ok && env.pkg != nil {
				// address of a package-level variable
				if sp := fc.e.spkgs[env.pkg.Path()]; sp != nil {
					if g, ok := sp.Members[id.Name].(*ssa.Global); ok {
						return fc.val(g)
					}
				}
			}
			sel, ok := e.X.(*ESel)
			if !ok {
				panic(specErr("& needs a field selector or a package variable"))
			}
			x := env.eval(sel.X)
			pt, ok := x.Ty.Underlying().(*types.Pointer)
			if !ok {
				panic(specErr("&x.f: x must be a pointer"))
			}
			loc := fc.locOf(x)
			path, ft, ok := fieldPath(pt.Elem(), sel.Name)
			if !ok {
				panic(specErr("no field %s in %s", sel.Name, pt.Elem()))
			}
			pre := loc.Pre
			for _, i := range path {
				pre += fmt.Sprintf("f%d_", i)
			}
			return V{Ty: types.NewPointer(ft), T: []string{loc.Ref}, Loc: &Loc{Kind: locField, S: loc.S, Pre: pre, Ref: loc.Ref, Ty: ft}}
		}
		v := env.eval(e.X)
		switch e.Op {
		case "!":
			return boolV(not(env.asBool(v)))
		case "-":
			if v.C != nil {
				return V{C: new(big.Int).Neg(v.C)}
			}
			return V{Ty: v.Ty, T: []string{sx("bvneg", v.T[0])}}
		case "^":
			if v.C != nil {
				return V{C: new(big.Int).Not(v.C)}
			}
			return V{Ty: v.Ty, T: []string{sx("bvnot", v.T[0])}}
		}
	case *EBin:
		return env.binary(e)
	case *ECond:
		c := env.evalBool(e.C)
		a, b := env.eval(e.A), env.eval(e.B)
		if a.C != nil && b.C != nil {
			a, b = env.constTo(a, types.Typ[types.Int]), env.constTo(b, types.Typ[types.Int])
		}
		a, b = env.unify(a, b)
		return fc.iteV(c, a, b)
	case *ECall:
		return env.callExpr(e)
	case *EIndex:
		b := env.eval(e.X)
		if isMap(b.Ty) {
			k := env.constTo(env.eval(e.I), b.Ty.Underlying().(*types.Map).Key())
			_, val := fc.mapRead(env.cur, b.Ty, b, k)
			return val
		}
		i := env.constTo(env.eval(e.I), types.Typ[types.Int])
		return env.indexV(b, fc.toInt64(i))
	case *ESlice:
		b := env.eval(e.X)
		lo := bvLit(0, 64)
		if e.Lo != nil {
			lo = fc.toInt64(env.constTo(env.eval(e.Lo), types.Typ[types.Int]))
		}
		if isString(b.Ty) {
			hi := sx("slen", b.T[0])
			if e.Hi != nil {
				hi = fc.toInt64(env.constTo(env.eval(e.Hi), types.Typ[types.Int]))
			}
			fc.declareFun("substr", []string{sInt, sBV(64), sBV(64)}, sInt)
			return V{Ty: b.Ty, T: []string{sx("substr", b.T[0], lo, hi)}}
		}
		hi := b.T[2]
		if e.Hi != nil {
			hi = fc.toInt64(env.constTo(env.eval(e.Hi), types.Typ[types.Int]))
		}
		return V{Ty: b.Ty, T: []string{b.T[0], add64(b.T[1], lo), sub64(hi, lo), sub64(b.T[3], lo)}, Mem: b.Mem}
	case *ESel:
		return env.selector(e)
	case *EQuant:
		return env.quant(e)
	case *ETypeAssert:
		v := env.eval(e.X)
		t, err := fc.e.lookupType(e.Ty, env.pkg)
		if err != nil {
			panic(specErr("%v", err))
		}
		uv := fc.unbox(v, t)
		if isSlice(t) && !fc.dry && !boundVarRe.MatchString(uv.T[0]) {
			// the bytes a slice-typed dynamic value views were allocated before now
			w := and(sx(">=", uv.T[0], "0"), sx("<", uv.T[0], env.cur.ac))
			if k := "unboxwf:" + fc.reach + ":" + w; !fc.declared[k] {
				fc.declared[k] = true
				fc.assume(w)
			}
		}
		return uv
	case *ETypeLit:
		panic(specErr("type %s used as a value", e.Ty))
	}
	panic(specErr("cannot evaluate %T", x))
}

func (env *Env) asBool(v V) string {
	if v.B != nil {
		if *v.B {
			return "true"
		}
		return "false"
	}
	if !isBoolean(v.Ty) {
		panic(specErr("boolean expected"))
	}
	return v.T[0]
}

func (env *Env) indexV(b V, i string) V {
	fc := env.fc
	switch {
	case isSlice(b.Ty):
		et := elemOf(b.Ty)
		idx := add64(b.T[1], i)
		if idxProbe != nil {
			cs := fc.e.comps(et)
			mk := fc.e.memKey(et)
			if b.Mem != "" {
				mk = b.Mem
			}
			if len(cs) > 0 {
				idxProbe(sx("select", fc.heapGet(env.cur, mk+"."+cs[0].Suf, memSort(cs[0].Sort)), b.T[0]), idx)
			}
		}
		if b.Mem != "" {
			cs := fc.e.comps(et)
			arr := fc.heapGet(env.cur, b.Mem+"."+cs[0].Suf, memSort(cs[0].Sort))
			return V{Ty: et, T: []string{sx("select", sx("select", arr, b.T[0]), idx)}}
		}
		return fc.load(env.cur, &Loc{Kind: locElem, Ref: b.T[0], Idx: idx, Ty: et})
	case isString(b.Ty):
		return V{Ty: types.Typ[types.Uint8], T: []string{sx("select", sx("strarr", b.T[0]), i)}}
	}
	panic(specErr("cannot index %v", b.Ty))
}

func (env *Env) ident(name string) V {
	fc := env.fc
	if v, ok := env.bound[name]; ok {
		return v
	}
	if env.at != nil && !env.phiNames[name] {
		// at a loop header a local assignment shadows the parameter of the same name
		if v, ok := fc.localAt(env.at, name); ok {
			return v
		}
	}
	if v, ok := env.vars[name]; ok {
		return v
	}
	switch name {
	case "nil":
		return V{Ty: types.Typ[types.UntypedNil], T: []string{"0"}}
	case "true":
		b := true
		return V{B: &b}
	case "false":
		b := false
		return V{B: &b}
	}
	// local variable visible at the program point
	if env.at != nil {
		if v, ok := fc.localAt(env.at, name); ok {
			return v
		}
	}
	// entry value of a parameter: name0
	if strings.HasSuffix(name, "0") {
		if v, ok := fc.params[name[:len(name)-1]]; ok {
			return v
		}
	}
	// package-level constant or variable
	if env.pkg != nil {
		if v, ok := env.pkgObject(env.pkg, name); ok {
			return v
		}
	}
	// a loop variable that was renamed in the source: if the loop has exactly one integer variable (besides the range
	// index), an invariant's unknown name can only mean that one. Binding it is sound (the invariant is still checked
	// on entry and for preservation, and the postconditions still have to follow); it keeps a rename from being an alarm.
	if env.at != nil && len(env.phiNames) > 0 {
		var cand []string
		for k := range env.phiNames {
			if v, ok := env.vars[k]; ok && isInteger(v.Ty) && k != "rangeindex" && !regexp.MustCompile(`^t\d+$`).MatchString(k) {
				cand = append(cand, k)
			}
		}
		if len(cand) == 1 {
			fc.assumptions[fmt.Sprintf("loop variable renamed: the name %q in a loop annotation of %s is read as the loop's only integer variable %q", name, fc.name, cand[0])] = true
			return env.vars[cand[0]]
		}
	}
	panic(specErr("unknown identifier %q in %s", name, fc.name))
}

func (env *Env) pkgObject(pkg *types.Package, name string) (V, bool) {
	fc := env.fc
	o := pkg.Scope().Lookup(name)
	switch ob := o.(type) {
	case *types.Const:
		if ob.Val().Kind() == constant.Int {
			bi, _ := new(big.Int).SetString(ob.Val().ExactString(), 10)
			if b, ok := ob.Type().Underlying().(*types.Basic); ok && b.Info()&types.IsUntyped == 0 {
				return env.constTo(V{C: bi}, ob.Type()), true
			}
			return V{C: bi}, true
		}
		if ob.Val().Kind() == constant.String {
			return V{Ty: ob.Type(), T: []string{fc.strLit(constant.StringVal(ob.Val()))}}, true
		}
	case *types.Var:
		sp := fc.e.spkgs[pkg.Path()]
		if sp != nil {
			if g, ok := sp.Members[name].(*ssa.Global); ok {
				gv := fc.val(g)
				return fc.load(env.cur, gv.Loc), true
			}
		}
	}
	return V{}, false
}

func (env *Env) selector(e *ESel) V {
	fc := env.fc
	// package-qualified name?
	if id, ok := e.X.(*EIdent); ok {
		if _, isVar := env.vars[id.Name]; !isVar {
			if _, isB := env.bound[id.Name]; !isB {
				if p := fc.e.byName[id.Name]; p != nil {
					if v, ok := env.pkgObject(p, e.Name); ok {
						return v
					}
				}
			}
		}
	}
	x := env.eval(e.X)
	if x.Ty == nil {
		panic(specErr("selector on untyped value"))
	}
	var st types.Type
	var loc *Loc
	if pt, ok := x.Ty.Underlying().(*types.Pointer); ok {
		st = pt.Elem()
		loc = fc.locOf(x)
	} else if isStruct(x.Ty) {
		// struct value
		path, ft, ok := fieldPath(x.Ty, e.Name)
		if !ok {
			panic(specErr("no field %s in %s", e.Name, x.Ty))
		}
		v := x
		for _, i := range path {
			v = fc.sub(v, i)
		}
		v.Ty = ft
		return v
	} else {
		panic(specErr("selector .%s on %s", e.Name, x.Ty))
	}
	path, ft, ok := fieldPath(st, e.Name)
	if !ok {
		panic(specErr("no field %s in %s", e.Name, st))
	}
	if loc.Kind != locField {
		panic(specErr("field of slice element"))
	}
	pre := loc.Pre
	for _, i := range path {
		pre += fmt.Sprintf("f%d_", i)
	}
	lv := fc.load(env.cur, &Loc{Kind: locField, S: loc.S, Pre: pre, Ref: loc.Ref, Ty: ft})
	if isSlice(ft) && !fc.dry && !boundVarRe.MatchString(loc.Ref) && (os.Getenv("GOVC_SPECWF") != "" || (fc.c != nil && fc.c.SliceWF)) {
		// a slice header read from the heap satisfies its type invariant (0 <= len <= cap, nil has no capacity)
		w := fc.wfAc(lv, env.cur.ac)
		if k := "specwf:" + fc.reach + ":" + w; !fc.declared[k] {
			fc.declared[k] = true
			fc.assume(w)
		}
	}
	return lv
}

var boundVarRe = regexp.MustCompile(`\|q\d+_`)

// unify brings an untyped constant / nil to the type of the other operand.
func (env *Env) unify(a, b V) (V, V) {
	fc := env.fc
	if a.C != nil && b.C != nil {
		return a, b
	}
	if a.C != nil {
		return env.constTo(a, b.Ty), b
	}
	if b.C != nil {
		return a, env.constTo(b, a.Ty)
	}
	if a.B != nil {
		return boolV(env.asBool(a)), b
	}
	if b.B != nil {
		return a, boolV(env.asBool(b))
	}
	isNil := func(v V) bool {
		bt, ok := v.Ty.(*types.Basic)
		return ok && bt.Kind() == types.UntypedNil
	}
	if isNil(a) && !isNil(b) {
		return fc.zero(b.Ty), b
	}
	if isNil(b) && !isNil(a) {
		return a, fc.zero(a.Ty)
	}
	return a, b
}

func (env *Env) binary(e *EBin) V {
	fc := env.fc
	switch e.Op {
	case "==>":
		return boolV(implies(env.evalBool(e.L), env.evalBool(e.R)))
	case "<==>":
		return boolV(eq(env.evalBool(e.L), env.evalBool(e.R)))
	case "&&":
		return boolV(and(env.evalBool(e.L), env.evalBool(e.R)))
	case "||":
		return boolV(or(env.evalBool(e.L), env.evalBool(e.R)))
	}
	a, b := env.eval(e.L), env.eval(e.R)
	if a.C != nil && b.C != nil {
		r := new(big.Int)
		switch e.Op {
		case "+":
			r.Add(a.C, b.C)
		case "-":
			r.Sub(a.C, b.C)
		case "*":
			r.Mul(a.C, b.C)
		case "/":
			r.Quo(a.C, b.C)
		case "%":
			r.Rem(a.C, b.C)
		case "<<":
			r.Lsh(a.C, uint(b.C.Uint64()))
		case ">>":
			r.Rsh(a.C, uint(b.C.Uint64()))
		case "&":
			r.And(a.C, b.C)
		case "|":
			r.Or(a.C, b.C)
		case "^":
			r.Xor(a.C, b.C)
		case "&^":
			r.AndNot(a.C, b.C)
		case "==", "!=", "<", "<=", ">", ">=":
			c := a.C.Cmp(b.C)
			res := map[string]bool{"==": c == 0, "!=": c != 0, "<": c < 0, "<=": c <= 0, ">": c > 0, ">=": c >= 0}[e.Op]
			return V{B: &res}
		default:
			panic(specErr("constant op %s", e.Op))
		}
		return V{C: r}
	}
	if e.Op == "<<" || e.Op == ">>" {
		if a.C != nil {
			a = env.constTo(a, types.Typ[types.Int])
		}
		if b.C != nil {
			b = env.constTo(b, types.Typ[types.Uint])
		}
	} else {
		a, b = env.unify(a, b)
	}
	var tk token.Token
	switch e.Op {
	case "+":
		tk = token.ADD
	case "-":
		tk = token.SUB
	case "*":
		tk = token.MUL
	case "/":
		tk = token.QUO
	case "%":
		tk = token.REM
	case "<<":
		tk = token.SHL
	case ">>":
		tk = token.SHR
	case "&":
		tk = token.AND
	case "|":
		tk = token.OR
	case "^":
		tk = token.XOR
	case "&^":
		tk = token.AND_NOT
	case "==":
		tk = token.EQL
	case "!=":
		tk = token.NEQ
	case "<":
		tk = token.LSS
	case "<=":
		tk = token.LEQ
	case ">":
		tk = token.GTR
	case ">=":
		tk = token.GEQ
	default:
		panic(specErr("operator %s", e.Op))
	}
	rt := a.Ty
	switch tk {
	case token.EQL, token.NEQ, token.LSS, token.LEQ, token.GTR, token.GEQ:
		rt = types.Typ[types.Bool]
	}
	if isInteger(a.Ty) && isInteger(b.Ty) && tk != token.SHL && tk != token.SHR {
		wa, wb := bvWidth(fc.e.comps(a.Ty)[0].Sort), bvWidth(fc.e.comps(b.Ty)[0].Sort)
		if wa != wb {
			panic(specErr("operands of %s have widths %d and %d in %s", e.Op, wa, wb, exprString(e)))
		}
		if isUnsigned(a.Ty) != isUnsigned(b.Ty) && (tk == token.LSS || tk == token.LEQ || tk == token.GTR || tk == token.GEQ || tk == token.QUO || tk == token.REM) {
			panic(specErr("mixed signedness in %s", exprString(e)))
		}
	}
	if tk == token.QUO || tk == token.REM {
		// spec division: total, no obligation
		uns := isUnsigned(a.Ty)
		o := map[bool]map[token.Token]string{true: {token.QUO: "bvudiv", token.REM: "bvurem"}, false: {token.QUO: "bvsdiv", token.REM: "bvsrem"}}[uns][tk]
		return V{Ty: rt, T: []string{sx(o, a.T[0], b.T[0])}}
	}
	if (tk == token.SHL || tk == token.SHR) && !isUnsigned(b.Ty) {
		// spec shifts never panic: the count is read as unsigned of the same width
		ut := map[int]types.Type{8: types.Typ[types.Uint8], 16: types.Typ[types.Uint16], 32: types.Typ[types.Uint32], 64: types.Typ[types.Uint64]}
		b = V{Ty: ut[bvWidth(fc.e.comps(b.Ty)[0].Sort)], T: b.T}
	}
	saveC := fc.c
	nos := &Contract{NoSafety: true}
	fc.c = nos
	r := fc.binop(tk, a, b, rt, token.NoPos)
	fc.c = saveC
	return r
}

func exprString(x Expr) string {
	switch e := x.(type) {
	case *EIdent:
		return e.Name
	case *ENum:
		return e.Val.String()
	case *EStr:
		return fmt.Sprintf("%q", e.S)
	case *EBin:
		return "(" + exprString(e.L) + " " + e.Op + " " + exprString(e.R) + ")"
	case *EUn:
		return e.Op + exprString(e.X)
	case *ECall:
		var as []string
		for _, a := range e.Args {
			as = append(as, exprString(a))
		}
		return exprString(e.Fun) + "(" + strings.Join(as, ", ") + ")"
	case *EIndex:
		return exprString(e.X) + "[" + exprString(e.I) + "]"
	case *ESlice:
		return exprString(e.X) + "[:]"
	case *ESel:
		return exprString(e.X) + "." + e.Name
	case *ECond:
		return exprString(e.C) + " ? " + exprString(e.A) + " : " + exprString(e.B)
	case *EQuant:
		return "forall ... :: " + exprString(e.Body)
	case *ETypeAssert:
		return exprString(e.X) + ".(" + e.Ty + ")"
	case *ETypeLit:
		return e.Ty
	}
	return "?"
}

func (env *Env) quant(e *EQuant) V {
	fc := env.fc
	save := map[string]V{}
	var binders []string
	for _, qv := range e.Vars {
		t, err := fc.e.lookupType(qv.Ty, env.pkg)
		if err != nil {
			panic(specErr("%v", err))
		}
		fc.qctr++
		v := V{Ty: t}
		for _, c := range fc.e.comps(t) {
			n := fmt.Sprintf("|q%d_%s%s|", fc.qctr, qv.Name, c.Suf)
			binders = append(binders, fmt.Sprintf("(%s %s)", n, c.Sort))
			v.T = append(v.T, n)
		}
		if old, ok := env.bound[qv.Name]; ok {
			save[qv.Name] = old
		}
		env.bound[qv.Name] = v
	}
	// Change of variable for an integer index: if the body reads s[... + i ...], quantify over the absolute index
	// K = off + ... + i instead (i := K - rest; a bijection on 64-bit vectors), so that the select terms have a plain
	// variable as index and match every other select on the same array.
	covPattern := ""
	if (os.Getenv("GOVC_COV") != "" || (fc.c != nil && fc.c.AbsIdx)) && len(e.Vars) == 1 && len(binders) == 1 && strings.HasSuffix(binders[0], " (_ BitVec 64))") && len(e.Pats) == 0 {
		bv := env.bound[e.Vars[0].Name].T[0]
		var found *Lin
		foundInner := ""
		saveProbe := idxProbe
		idxProbe = func(inner, idx string) {
			if found != nil {
				return
			}
			l := linOf(idx)
			if l.atoms[bv] != 1 {
				return
			}
			for a := range l.atoms {
				if a != bv && strings.Contains(a, "|q") {
					return
				}
			}
			found = l
			foundInner = inner
		}
		func() {
			defer func() { idxProbe = saveProbe }()
			env.evalBool(e.Body)
		}()
		if found != nil {
			rest := &Lin{c: found.c, atoms: map[string]uint64{}}
			for a, c := range found.atoms {
				if a != bv {
					rest.atoms[a] = c
				}
			}
			if len(rest.atoms) > 0 || rest.c != 0 {
				fc.qctr++
				k := fmt.Sprintf("|q%d_K|", fc.qctr)
				binders = []string{fmt.Sprintf("(%s (_ BitVec 64))", k)}
				env.bound[e.Vars[0].Name] = V{Ty: env.bound[e.Vars[0].Name].Ty, T: []string{sub64(k, linTerm(rest))}}
				if !strings.Contains(foundInner, "|q") {
					covPattern = sx("select", foundInner, k)
				}
			}
		}
	}
	body := env.evalBool(e.Body)
	if covPattern != "" {
		body = fmt.Sprintf("(! %s :pattern (%s))", body, covPattern)
	}
	if len(e.Pats) > 0 {
		var ps []string
		for _, pe := range e.Pats {
			pv := env.eval(pe)
			ps = append(ps, pv.T...)
		}
		body = fmt.Sprintf("(! %s :pattern (%s))", body, strings.Join(ps, " "))
	}
	for _, qv := range e.Vars {
		delete(env.bound, qv.Name)
		if old, ok := save[qv.Name]; ok {
			env.bound[qv.Name] = old
		}
	}
	q := "forall"
	if !e.Forall {
		q = "exists"
	}
	return boolV(fmt.Sprintf("(%s (%s) %s)", q, strings.Join(binders, " "), body))
}

func (env *Env) withState(st *State, f func() V) V {
	save := env.cur
	env.cur = st
	defer func() { env.cur = save }()
	return f()
}

func (env *Env) callExpr(e *ECall) V {
	fc := env.fc
	name := ""
	switch f := e.Fun.(type) {
	case *EIdent:
		name = f.Name
	case *ESel:
		if id, ok := f.X.(*EIdent); ok {
			name = id.Name + "." + f.Name
		}
	}
	if name == "" {
		panic(specErr("cannot call %s", exprString(e.Fun)))
	}
	argc := func(n int) {
		if len(e.Args) != n {
			panic(specErr("%s expects %d arguments", name, n))
		}
	}
	switch name {
	case "old":
		argc(1)
		return env.withState(env.old, func() V { return env.eval(e.Args[0]) })
	case "len":
		argc(1)
		v := env.eval(e.Args[0])
		switch {
		case isSlice(v.Ty):
			return V{Ty: types.Typ[types.Int], T: []string{v.T[2]}}
		case isString(v.Ty):
			return V{Ty: types.Typ[types.Int], T: []string{sx("slen", v.T[0])}}
		}
		panic(specErr("len of %v", v.Ty))
	case "cap":
		argc(1)
		v := env.eval(e.Args[0])
		return V{Ty: types.Typ[types.Int], T: []string{v.T[3]}}
	case "typeis":
		argc(2)
		v := env.eval(e.Args[0])
		tn := typeArg(e.Args[1])
		t, err := fc.e.lookupType(tn, env.pkg)
		if err != nil {
			panic(specErr("%v", err))
		}
		return boolV(eq(v.T[0], fc.tagTerm(t)))
	case "implements":
		argc(2)
		v := env.eval(e.Args[0])
		t, err := fc.e.lookupType(typeArg(e.Args[1]), env.pkg)
		if err != nil {
			panic(specErr("%v", err))
		}
		return boolV(and(not(eq(v.T[0], "0")), sx(fc.implPred(t), v.T[0])))
	case "fresh":
		argc(1)
		v := env.eval(e.Args[0])
		return boolV(sx(">=", v.T[0], env.oldAc))
	case "allocated":
		argc(1)
		v := env.eval(e.Args[0])
		return boolV(sx("<", v.T[0], env.oldAc))
	case "live":
		// live(x): the allocation behind x exists in the state where this is evaluated
		argc(1)
		v := env.eval(e.Args[0])
		return boolV(and(sx(">=", v.T[0], "0"), sx("<", v.T[0], env.cur.ac)))
	case "holdsview":
		// holdsview(p, b): some field of the struct p points to whose type is a byte slice shares its backing array with b.
		// The disjunction ranges over the fields the struct type has NOW, so a byte-slice field added later is covered
		// without touching the contract (separation clauses of the decoders, C06).
		argc(2)
		p, b := env.eval(e.Args[0]), env.eval(e.Args[1])
		pt, ok := p.Ty.Underlying().(*types.Pointer)
		if !ok {
			panic(specErr("holdsview: first argument must be a pointer to a struct"))
		}
		stt, ok := pt.Elem().Underlying().(*types.Struct)
		if !ok {
			panic(specErr("holdsview: first argument must be a pointer to a struct"))
		}
		loc := fc.locOf(p)
		var alts []string
		for i := 0; i < stt.NumFields(); i++ {
			ft := stt.Field(i).Type()
			sl, ok := ft.Underlying().(*types.Slice)
			if !ok {
				continue
			}
			if bt, ok := sl.Elem().Underlying().(*types.Basic); !ok || bt.Kind() != types.Uint8 {
				continue
			}
			fl := &Loc{Kind: locField, S: loc.S, Pre: loc.Pre + fmt.Sprintf("f%d_", i), Ref: loc.Ref, Ty: ft}
			fv := fc.load(env.cur, fl)
			alts = append(alts, and(eq(fv.T[0], b.T[0]), not(eq(fv.T[0], "0"))))
		}
		if len(alts) == 0 {
			return boolV("false")
		}
		return boolV(or(alts...))
	case "samebase", "aliases":
		argc(2)
		a, b := env.eval(e.Args[0]), env.eval(e.Args[1])
		return boolV(and(eq(a.T[0], b.T[0]), not(eq(a.T[0], "0"))))
	case "mk":
		// mk(T, f0, f1, ...): a value of struct type T from its field values
		if len(e.Args) < 1 {
			panic(specErr("mk needs a type"))
		}
		t, err := fc.e.lookupType(typeArg(e.Args[0]), env.pkg)
		if err != nil {
			panic(specErr("%v", err))
		}
		st, ok := t.Underlying().(*types.Struct)
		if !ok || st.NumFields() != len(e.Args)-1 {
			panic(specErr("mk(%s): %d fields expected", t, st.NumFields()))
		}
		out := V{Ty: t}
		for i := 0; i < st.NumFields(); i++ {
			fv := env.eval(e.Args[i+1])
			if fv.C != nil {
				fv = env.constTo(fv, st.Field(i).Type())
			}
			if fv.B != nil {
				fv = boolV(env.asBool(fv))
			}
			out.T = append(out.T, fv.T...)
		}
		return out
	case "isslice":
		// isslice(b, a, lo): b == a[lo:]
		argc(3)
		b, a := env.eval(e.Args[0]), env.eval(e.Args[1])
		lo := fc.toInt64(env.constTo(env.eval(e.Args[2]), types.Typ[types.Int]))
		return boolV(and(eq(b.T[0], a.T[0]), eq(b.T[1], add64(a.T[1], lo)), eq(b.T[2], sub64(a.T[2], lo))))
	case "prefixof":
		// r starts where s starts and fits into s's capacity
		argc(2)
		a, b := env.eval(e.Args[0]), env.eval(e.Args[1])
		return boolV(and(eq(a.T[0], b.T[0]), not(eq(a.T[0], "0")), eq(a.T[1], b.T[1]), sx("bvsle", a.T[2], b.T[3])))
	case "isptr":
		// isptr(x): the dynamic type of the interface value x is a pointer (or map) type, so x's identity is an allocation id
		argc(1)
		v := env.eval(e.Args[0])
		if !isIface(v.Ty) {
			panic(specErr("isptr needs an interface value"))
		}
		return boolV(sx("isptrtag", v.T[0]))
	case "grown":
		// grown(a, b): a is what appending to b yields: b's array with b's capacity and at least b's length, or a newly
		// allocated array
		argc(2)
		a, b := env.eval(e.Args[0]), env.eval(e.Args[1])
		return boolV(or(and(sx(">=", a.T[0], env.oldAc), sx("bvsge", a.T[2], b.T[2])), and(eq(a.T[0], b.T[0]), eq(a.T[1], b.T[1]), eq(a.T[3], b.T[3]), sx("bvsge", a.T[2], b.T[2]))))
	case "sameslice":
		argc(2)
		a, b := env.eval(e.Args[0]), env.eval(e.Args[1])
		return boolV(and(eq(a.T[0], b.T[0]), eq(a.T[1], b.T[1]), eq(a.T[2], b.T[2])))
	case "box":
		argc(1)
		v := env.eval(e.Args[0])
		return fc.makeIface(v, types.NewInterfaceType(nil, nil))
	case "ite":
		argc(3)
		c := env.evalBool(e.Args[0])
		a, b := env.unify(env.eval(e.Args[1]), env.eval(e.Args[2]))
		return fc.iteV(c, a, b)
	case "has":
		argc(2)
		m := env.eval(e.Args[0])
		k := env.constTo(env.eval(e.Args[1]), m.Ty.Underlying().(*types.Map).Key())
		ok, _ := fc.mapRead(env.cur, m.Ty, m, k)
		return boolV(ok)
	case "closed":
		argc(1)
		ch := env.eval(e.Args[0])
		arr := fc.heapGet(env.cur, "ghost:closed", fieldSort(sBool))
		return boolV(sx("select", arr, ch.T[0]))
	case "chancap":
		// chancap(ch): the capacity ch was made with (0: unbuffered); never changes
		argc(1)
		ch := env.eval(e.Args[0])
		arr := fc.heapGet(env.cur, "ghost:chancap", fieldSort(sBV(64)))
		return V{Ty: types.Typ[types.Int], T: []string{sx("select", arr, ch.T[0])}}
	case "oncedone":
		// oncedone(&x.once): the sync.Once has fired
		argc(1)
		o := env.eval(e.Args[0])
		arr := fc.heapGet(env.cur, "ghost:oncedone", fieldSort(sBool))
		return boolV(sx("select", arr, o.T[0]))
	case "recvs":
		// recvs(ch): how many receives on ch this goroutine has completed
		argc(1)
		ch := env.eval(e.Args[0])
		arr := fc.heapGet(env.cur, "ghost:recvs", fieldSort(sBV(64)))
		return V{Ty: types.Typ[types.Int], T: []string{sx("select", arr, ch.T[0])}}
	case "v4mapped":
		// net.IP's IPv4-in-IPv6 form: 16 octets with the prefix 00*10 ff ff. Modelled as an uninterpreted predicate of the
		// slice's (allocation, offset), defined by the twelve byte tests in the state where it is evaluated.
		// ASSUMPTION (recorded): the bytes viewed by an Address / IPv4 value do not change while the value is in use,
		// so the predicate does not depend on the heap version.
		argc(1)
		ip := env.eval(e.Args[0])
		base, off := ip.T[0], ip.T[1]
		fc.assumptions["bytes viewed by an Address/IPv4 value are immutable while the value is in use (v4-mapped test is a function of allocation and offset)"] = true
		if !strings.Contains(base+off, "|q") {
			mem := fc.heapGet(env.cur, "M:bv8.", memSort(sBV(8)))
			inner := sx("select", mem, base)
			key := "ismapped:" + inner + ":" + off
			if !fc.declared[key] {
				fc.declared[key] = true
				var cs []string
				for k := 0; k < 12; k++ {
					want := "#x00"
					if k >= 10 {
						want = "#xff"
					}
					cs = append(cs, eq(sx("select", inner, add64(off, bvLit(uint64(k), 64))), want))
				}
				fc.assumeGlobal(implies(eq(ip.T[2], bvLit(16, 64)), eq(sx("ismapped", base, off), and(cs...))))
			}
		}
		return boolV(and(eq(ip.T[2], bvLit(16, 64)), sx("ismapped", base, off)))
	case "f32bits":
		argc(1)
		v := env.eval(e.Args[0])
		return V{Ty: types.Typ[types.Uint32], T: v.T}
	case "f64bits":
		argc(1)
		v := env.eval(e.Args[0])
		return V{Ty: types.Typ[types.Uint64], T: v.T}
	case "unixOf":
		argc(1)
		v := env.eval(e.Args[0])
		return V{Ty: types.Typ[types.Int64], T: v.T}
	case "sext64":
		argc(1)
		v := env.eval(e.Args[0])
		return V{Ty: types.Typ[types.Int], T: []string{fc.toInt64(v)}}
	}
	// instance of a manual lemma of a heap-reading function: fname.label(args...)
	if i := strings.Index(name, "."); i > 0 {
		if f, ok := fc.e.specs.Funs[name[:i]]; ok && f.Manual != nil {
			if cl, ok := f.Manual[name[i+1:]]; ok {
				q, ok := cl.E.(*EQuant)
				if !ok || len(q.Vars) != len(e.Args) {
					panic(specErr("%s: lemma has %d variables", name, len(q.Vars)))
				}
				sub := &Env{fc: fc, vars: map[string]V{}, bound: map[string]V{}, cur: env.cur, old: env.old, oldAc: env.oldAc, pkg: env.pkg, depth: env.depth + 1}
				for k, qv := range q.Vars {
					a := env.eval(e.Args[k])
					t := env.specType(qv.Ty)
					if a.C != nil {
						a = env.constTo(a, t)
					}
					a.Ty = t
					sub.vars[qv.Name] = a
				}
				fc.assumptions["lemma (induction / definition, not machine-checked): "+name[:i]+"."+cl.Label+": "+cl.Text] = true
				return boolV(sub.evalBool(q.Body))
			}
		}
	}
	// ghost function
	if g, ok := fc.e.specs.Ghosts[name]; ok {
		var o V
		if g.Arg == "" {
			argc(0)
			o = V{Ty: types.Typ[types.Int], T: []string{"0"}} // a global ghost variable
		} else {
			argc(1)
			o = env.eval(e.Args[0])
		}
		keys, srts, id, rt := env.ghostKeys(g, o)
		out := V{Ty: rt, Mem: g.Mem}
		rcs := fc.e.comps(rt)
		for k := range keys {
			arr := fc.heapGet(env.cur, keys[k], fieldSort(srts[k]))
			if k < len(rcs) && rcs[k].Ref {
				// entry state: ghost values of existing objects name existing objects only
				fc.refBound(arr, false)
			}
			out.T = append(out.T, sx("select", arr, id))
		}
		if isSlice(rt) && !strings.Contains(strings.Join(out.T, " "), "|q") {
			// a slice-valued ghost is a well-formed slice (numeric part of the type invariant)
			key := "ghostwf:" + strings.Join(out.T, ",")
			if !fc.declared[key] {
				fc.declared[key] = true
				b, o, l, c := out.T[0], out.T[1], out.T[2], out.T[3]
				fc.assumeGlobal(and(sx(">=", b, "0"), sx("bvsle", bvLit(0, 64), l), sx("bvsle", l, c), sx("bvsle", bvLit(0, 64), o),
					sx("bvult", c, bvLit(1<<46, 64)), sx("bvult", o, bvLit(1<<46, 64))))
			}
		}
		return out
	}
	// spec function (macro) or uninterpreted function
	if f, ok := fc.e.specs.Funs[name]; ok {
		if len(e.Args) != len(f.Params) {
			panic(specErr("%s expects %d arguments", name, len(f.Params)))
		}
		defEnv := env
		if dp := fc.e.byName[f.Pkg]; f.Pkg != "" && f.Pkg != "?" && dp != nil && dp != env.pkg {
			cp := *env
			cp.pkg = dp
			defEnv = &cp
		}
		var args []V
		for i, a := range e.Args {
			v := env.eval(a)
			pt := defEnv.specType(f.Params[i].Ty)
			if v.C != nil {
				v = env.constTo(v, pt)
			}
			if pt != nil && isIface(pt) && v.Ty != nil && !isIface(v.Ty) {
				v = fc.makeIface(v, pt)
			}
			if pt != nil && v.Ty != nil && len(fc.e.comps(pt)) != len(v.T) {
				panic(specErr("argument %d of %s: have %v, want %s", i, name, v.Ty, f.Params[i].Ty))
			}
			args = append(args, v)
		}
		rt := defEnv.specType(f.Ret)
		if f.Body != nil {
			if env.depth > 40 {
				panic(specErr("spec function recursion too deep in %s", name))
			}
			sub := &Env{fc: fc, vars: map[string]V{}, bound: map[string]V{}, cur: env.cur, old: env.old, oldAc: env.oldAc, pkg: env.pkg, depth: env.depth + 1}
			if dp := fc.e.byName[f.Pkg]; f.Pkg != "" && f.Pkg != "?" && dp != nil {
				sub.pkg = dp
			}
			for i, p := range f.Params {
				a := args[i]
				if pt := defEnv.specType(p.Ty); pt != nil {
					a.Ty = pt
				}
				sub.vars[p.Name] = a
			}
			r := sub.eval(f.Body)
			if r.C != nil {
				r = env.constTo(r, rt)
			}
			if r.B != nil {
				r = boolV(env.asBool(r))
			}
			if rt != nil && r.Ty != nil && isInteger(rt) && isInteger(r.Ty) && len(r.T) == 1 &&
				bvWidth(fc.e.comps(rt)[0].Sort) != bvWidth(fc.e.comps(r.Ty)[0].Sort) {
				// e.g. a conditional of untyped constants defaulted to int: bring it to the declared result width
				saveC := fc.c
				fc.c = &Contract{NoSafety: true}
				r = fc.convert(r, rt)
				fc.c = saveC
			}
			if rt != nil {
				r.Ty = rt
			}
			return r
		}
		// uninterpreted: one SMT function per result component
		var flat, sorts []string
		if len(f.Reads) > 0 {
			// heap-reading function: the heap arrays it may depend on are explicit arguments
			for _, rk := range fc.readKeys(f) {
				flat = append(flat, fc.heapGet(env.cur, rk.key, rk.sort))
				sorts = append(sorts, rk.sort)
			}
			memo := "haxiom:" + name + ":" + strings.Join(flat, ",")
			if !fc.declared[memo] {
				fc.declared[memo] = true
				ax := &Env{fc: fc, vars: map[string]V{}, bound: map[string]V{}, cur: env.cur.clone(), old: env.old, oldAc: env.oldAc, pkg: env.pkg}
				for _, c := range f.Axioms {
					fc.assumeGlobal(ax.evalBool(c.E))
				}
			}
		}
		for i, a := range args {
			cs := fc.e.comps(defEnv.specType(f.Params[i].Ty))
			for j := range cs {
				flat = append(flat, a.T[j])
				sorts = append(sorts, cs[j].Sort)
			}
		}
		// frame rule for objects allocated by this function: if every heap array the function reads differs from its
		// entry version only by writes at refs this function allocated, then no object that existed at entry was
		// modified, and for arguments that existed at entry (all allocation ids below ac0) the value is the entry value.
		var alt, peelGuards []string
		if nr := len(fc.readKeys(f)); len(f.Reads) > 0 && nr > 0 && !fc.dry {
			changed, allEntry := false, true
			for k := 0; k < nr; k++ {
				p, gs, ok := fc.peelGuarded(flat[k])
				if p != flat[k] {
					changed = true
				}
				if !ok {
					allEntry = false
				}
				alt = append(alt, p)
				peelGuards = append(peelGuards, gs...)
			}
			if changed && allEntry {
				alt = append(alt, flat[nr:]...)
			} else {
				alt = nil
			}
		}
		var guard []string
		if alt != nil {
			guard = append(guard, peelGuards...)
			for i, a := range args {
				pt := env.specType(f.Params[i].Ty)
				if isSlice(pt) || isPointer(pt) {
					guard = append(guard, sx("<", a.T[0], fc.entry.ac))
				} else if len(fc.e.comps(pt)) > 0 && !isInteger(pt) && !isBoolean(pt) {
					alt = nil // an argument whose allocation id is not visible: no frame rule
					break
				}
			}
		}
		out := V{Ty: rt}
		for _, c := range fc.e.comps(rt) {
			fn := "|u:" + name + ":" + c.Suf + "|"
			fc.declareFun(fn, sorts, c.Sort)
			if len(flat) == 0 {
				out.T = append(out.T, fn)
			} else if alt != nil {
				fc.assumptions["frame rule for heap-reading spec functions: writes to objects allocated by the function under verification do not change values computed from objects that existed at its entry"] = true
				out.T = append(out.T, ite(and(guard...), sx(fn, alt...), sx(fn, flat...)))
			} else {
				out.T = append(out.T, sx(fn, flat...))
			}
		}
		return out
	}
	// conversion T(x)
	if t, err := fc.e.lookupType(name, env.pkg); err == nil {
		argc(1)
		v := env.eval(e.Args[0])
		if v.C != nil {
			return env.constTo(v, t)
		}
		if isIface(t) && !isIface(v.Ty) {
			return fc.makeIface(v, t)
		}
		saveC := fc.c
		fc.c = &Contract{NoSafety: true}
		defer func() { fc.c = saveC }()
		return fc.convertSpec(v, t)
	}
	panic(specErr("unknown function %q", name))
}

// convertSpec: conversions in specs never allocate.
func (fc *FnCtx) convertSpec(v V, t types.Type) V {
	if (isSlice(v.Ty) && isString(t)) || (isString(v.Ty) && isSlice(t)) {
		panic(specErr("string/[]byte conversion is not available in specs"))
	}
	r := fc.convert(v, t)
	return r
}

func typeArg(x Expr) string {
	switch e := x.(type) {
	case *ETypeLit:
		return e.Ty
	case *EIdent:
		return e.Name
	case *ESel:
		if id, ok := e.X.(*EIdent); ok {
			return id.Name + "." + e.Name
		}
	}
	panic(specErr("type expected, got %s", exprString(x)))
}

func (env *Env) specType(name string) types.Type {
	if name == "" {
		return nil
	}
	t, err := env.fc.e.lookupType(name, env.pkg)
	if err != nil {
		panic(specErr("%v", err))
	}
	return t
}

// ghostKeys: heap keys (one per result component), sorts, object id and result type of a ghost function application.
func (env *Env) ghostKeys(g *GhostFun, o V) (keys, srts []string, id string, rt types.Type) {
	fc := env.fc
	rt = env.specType(g.Ret)
	base := "ghost:" + g.Name
	switch {
	case isIface(o.Ty):
		id = o.T[1]
	case isSlice(o.Ty), isPointer(o.Ty), isMap(o.Ty), o.Ty != nil && len(o.T) == 1:
		id = o.T[0]
		if o.Loc != nil && o.Loc.Kind == locField && o.Loc.Pre != "" {
			base += "@" + o.Loc.S + "." + o.Loc.Pre
		}
	default:
		panic(specErr("ghost %s applied to %v", g.Name, o.Ty))
	}
	for _, c := range fc.e.comps(rt) {
		keys = append(keys, base+"."+c.Suf)
		srts = append(srts, c.Sort)
	}
	return
}

// ---------------------------------------------------------------------------
// local names at a program point (loop invariants)

func (fc *FnCtx) localAt(b *ssa.BasicBlock, name string) (V, bool) {
	// latest DebugRef for an identifier with this name in a block that dominates b
	var best ssa.Value
	var bestBlock *ssa.BasicBlock
	for _, blk := range fc.fn.Blocks {
		if !(blk == b || blk.Dominates(b)) {
			continue
		}
		for _, in := range blk.Instrs {
			dr, ok := in.(*ssa.DebugRef)
			if !ok || dr.IsAddr {
				continue
			}
			id, ok := dr.Expr.(interface{ String() string })
			_ = id
			if identName(dr) != name {
				continue
			}
			if blk == b {
				// a loop header's own refs come after the cut point; in the middle of a block that is being executed
				// (call-site clauses) the refs executed so far are visible
				if fc.inBlockLocals && fc.curBlock == b {
					if _, done := fc.vals[dr.X]; done {
						best, bestBlock = dr.X, blk
					}
				}
				continue
			}
			if bestBlock == nil || bestBlock.Dominates(blk) {
				best, bestBlock = dr.X, blk
			}
		}
	}
	if best == nil {
		return V{}, false
	}
	if v, ok := fc.vals[best]; ok {
		return v, true
	}
	if c, ok := best.(*ssa.Const); ok {
		return fc.constV(c), true
	}
	return V{}, false
}

// ---------------------------------------------------------------------------
// modifies targets

type modTarget struct {
	kind   string // field | mem | ghost
	keys   []string
	sorts  []string
	ref    string
	lo, hi string // absolute index range for mem
}

// resolveTargetIn resolves a target with the object expressions evaluated in the given state.
func (env *Env) resolveTargetIn(text string, st *State) []modTarget {
	e2 := *env
	e2.old = st
	return e2.resolveTarget(text)
}

func (env *Env) resolveTarget(text string) []modTarget {
	fc := env.fc
	if strings.TrimSpace(text) == "fresh" {
		return nil // explicit empty frame: only objects allocated after the frame began may be written
	}
	x, err := ParseExpr(text)
	if err != nil {
		panic(specErr("modifies target %q: %v", text, err))
	}
	structAll := func(p V) modTarget {
		loc := fc.locOf(p)
		mt := modTarget{kind: "field", ref: loc.Ref}
		for _, c := range fc.e.comps(loc.Ty) {
			mt.keys = append(mt.keys, loc.S+"."+loc.Pre+c.Suf)
			mt.sorts = append(mt.sorts, c.Sort)
		}
		return mt
	}
	switch e := x.(type) {
	case *ESel:
		p := env.withState(env.old, func() V { return env.eval(e.X) })
		if ta, ok := e.X.(*ETypeAssert); ok && isPointer(p.Ty) {
			// x.(*T).f : a target only when x's dynamic type is *T; otherwise the target denotes no object (ref -1)
			iv := env.withState(env.old, func() V { return env.eval(ta.X) })
			p = V{Ty: p.Ty, T: []string{ite(eq(iv.T[0], fc.tagTerm(p.Ty)), p.T[0], "(- 1)")}}
		}
		if e.Name == "*" {
			return []modTarget{structAll(p)}
		}
		var loc *Loc
		if !isPointer(p.Ty) && p.Loc == nil && isStruct(p.Ty) {
			// x.f.g where x.f is a struct value stored inside the object x points to
			loc = env.withStateLoc(e.X)
		} else {
			loc = fc.locOf(p)
		}
		path, ft, ok := fieldPath(loc.Ty, e.Name)
		if !ok {
			panic(specErr("modifies: no field %s in %s", e.Name, loc.Ty))
		}
		pre := loc.Pre
		for _, i := range path {
			pre += fmt.Sprintf("f%d_", i)
		}
		mt := modTarget{kind: "field", ref: loc.Ref}
		for _, c := range fc.e.comps(ft) {
			mt.keys = append(mt.keys, loc.S+"."+pre+c.Suf)
			mt.sorts = append(mt.sorts, c.Sort)
		}
		return []modTarget{mt}
	case *ESlice, *EIndex:
		var b V
		var lo, hi string
		switch s := e.(type) {
		case *ESlice:
			b = env.withState(env.old, func() V { return env.eval(s.X) })
			lo = bvLit(0, 64)
			if s.Lo != nil {
				lo = fc.toInt64(env.constTo(env.withState(env.old, func() V { return env.eval(s.Lo) }), types.Typ[types.Int]))
			}
			hi = b.T[2]
			if s.Hi != nil {
				hi = fc.toInt64(env.constTo(env.withState(env.old, func() V { return env.eval(s.Hi) }), types.Typ[types.Int]))
			}
		case *EIndex:
			b = env.withState(env.old, func() V { return env.eval(s.X) })
			lo = fc.toInt64(env.constTo(env.withState(env.old, func() V { return env.eval(s.I) }), types.Typ[types.Int]))
			hi = add64(lo, bvLit(1, 64))
		}
		if isSlice(b.Ty) && len(env.bound) == 0 {
			// the slice header comes from the heap or a parameter: its type invariant (0 <= len <= cap, bounded offset)
			fc.assume(fc.wfAc(b, env.old.ac))
		}
		et := elemOf(b.Ty)
		mt := modTarget{kind: "mem", ref: b.T[0], lo: fc.def("tlo", sBV(64), add64(b.T[1], lo)), hi: fc.def("thi", sBV(64), add64(b.T[1], hi))}
		mk := fc.e.memKey(et)
		if b.Mem != "" {
			mk = b.Mem
		}
		for _, c := range fc.e.comps(et) {
			mt.keys = append(mt.keys, mk+"."+c.Suf)
			mt.sorts = append(mt.sorts, c.Sort)
		}
		return []modTarget{mt}
	case *ECall:
		if id, ok := e.Fun.(*EIdent); ok {
			if g, ok := fc.e.specs.Ghosts[id.Name]; ok {
				if len(e.Args) == 1 {
					if a, ok := e.Args[0].(*EIdent); ok && a.Name == "any" {
						// the ghost field of every object (state owned by a pool, invisible to callers)
						rt := env.specType(g.Ret)
						mt := modTarget{kind: "ghostall", ref: "0"}
						for _, c := range fc.e.comps(rt) {
							mt.keys = append(mt.keys, "ghost:"+g.Name+"."+c.Suf)
							mt.sorts = append(mt.sorts, c.Sort)
						}
						return []modTarget{mt}
					}
				}
				var o V
				if g.Arg == "" {
					o = V{Ty: types.Typ[types.Int], T: []string{"0"}}
				} else {
					o = env.withState(env.old, func() V { return env.eval(e.Args[0]) })
				}
				keys, srts, oid, _ := env.ghostKeys(g, o)
				return []modTarget{{kind: "ghost", keys: keys, sorts: srts, ref: oid}}
			}
			if id.Name == "anyfield" && len(e.Args) == 1 {
				// anyfield(pkg.Type.f): field f of every object of that type (a callee that reorders a collection and updates
				// a position field in each element)
				parts := strings.Split(exprString(e.Args[0]), ".")
				if len(parts) != 3 {
					panic(specErr("anyfield wants pkg.Type.field"))
				}
				t, err := fc.e.lookupType(parts[0]+"."+parts[1], env.pkg)
				if err != nil {
					panic(specErr("%v", err))
				}
				path, ft, ok := fieldPath(t, parts[2])
				if !ok {
					panic(specErr("anyfield: no field %s in %s", parts[2], t))
				}
				pre := ""
				for _, i := range path {
					pre += fmt.Sprintf("f%d_", i)
				}
				mt := modTarget{kind: "ghostall", ref: "0"}
				for _, c := range fc.e.comps(ft) {
					mt.keys = append(mt.keys, fc.e.structKey(t)+"."+pre+c.Suf)
					mt.sorts = append(mt.sorts, c.Sort)
				}
				return []modTarget{mt}
			}
			if id.Name == "oncedone" && len(e.Args) == 1 {
				o := env.withState(env.old, func() V { return env.eval(e.Args[0]) })
				fc.keySort["ghost:oncedone"] = fieldSort(sBool)
				return []modTarget{{kind: "ghost", keys: []string{"ghost:oncedone"}, sorts: []string{sBool}, ref: o.T[0]}}
			}
			if id.Name == "recvs" && len(e.Args) == 1 {
				ch := env.withState(env.old, func() V { return env.eval(e.Args[0]) })
				fc.keySort["ghost:recvs"] = fieldSort(sBV(64))
				return []modTarget{{kind: "ghost", keys: []string{"ghost:recvs"}, sorts: []string{sBV(64)}, ref: ch.T[0]}}
			}
			if id.Name == "closed" && len(e.Args) == 1 {
				ch := env.withState(env.old, func() V { return env.eval(e.Args[0]) })
				fc.keySort["ghost:closed"] = fieldSort(sBool)
				return []modTarget{{kind: "ghost", keys: []string{"ghost:closed"}, sorts: []string{sBool}, ref: ch.T[0]}}
			}
			if id.Name == "bytes" {
				if a, ok := e.Args[0].(*EIdent); ok && a.Name == "any" {
					// byte memory owned by a buffer pool: may be overwritten (callers must not hold views into it)
					return []modTarget{{kind: "memall", keys: []string{"M:bv8."}, sorts: []string{sBV(8)}, ref: "0"}}
				}
			}
			if id.Name == "mapof" {
				m := env.withState(env.old, func() V { return env.eval(e.Args[0]) })
				dom, _, vals, _ := fc.mapKeys(m.Ty)
				mt := modTarget{kind: "map", ref: m.T[0]}
				mt.keys = append([]string{dom}, vals...)
				for _, k := range mt.keys {
					mt.sorts = append(mt.sorts, fc.keySort[k])
				}
				return []modTarget{mt}
			}
		}
	case *EIdent:
		p := env.withState(env.old, func() V { return env.eval(e) })
		if isPointer(p.Ty) {
			return []modTarget{structAll(p)}
		}
		if isMap(p.Ty) {
			dom, _, vals, _ := fc.mapKeys(p.Ty)
			mt := modTarget{kind: "map", ref: p.T[0]}
			mt.keys = append([]string{dom}, vals...)
			for _, k := range mt.keys {
				mt.sorts = append(mt.sorts, fc.keySort[k])
			}
			return []modTarget{mt}
		}
	}
	panic(specErr("unsupported modifies target %q", text))
}

// withStateLoc: the location (object, component prefix) denoted by a chain of field selections that starts at a pointer.
func (env *Env) withStateLoc(x Expr) *Loc {
	fc := env.fc
	sel, ok := x.(*ESel)
	if !ok {
		panic(specErr("modifies: %s does not denote a field of an object", exprString(x)))
	}
	base := env.withState(env.old, func() V { return env.eval(sel.X) })
	var loc *Loc
	if isPointer(base.Ty) || base.Loc != nil {
		loc = fc.locOf(base)
	} else {
		loc = env.withStateLoc(sel.X)
	}
	path, ft, ok := fieldPath(loc.Ty, sel.Name)
	if !ok {
		panic(specErr("modifies: no field %s in %s", sel.Name, loc.Ty))
	}
	pre := loc.Pre
	for _, i := range path {
		pre += fmt.Sprintf("f%d_", i)
	}
	return &Loc{Kind: locField, S: loc.S, Pre: pre, Ref: loc.Ref, Ty: ft}
}

func (fc *FnCtx) havocTarget(env *Env, old *State, text string, pos token.Pos) {
	fc.havocTargetX(env, old, text, pos, true)
}

func (fc *FnCtx) havocTargetNoCheck(env *Env, old *State, text string) {
	fc.havocTargetX(env, old, text, token.NoPos, false)
}

func (fc *FnCtx) havocTargetX(env *Env, old *State, text string, pos token.Pos, check bool) {
	envOld := &Env{fc: fc, vars: env.vars, bound: env.bound, cur: old, old: old, oldAc: old.ac, pkg: env.pkg, contract: env.contract, at: env.at}
	for _, mt := range envOld.resolveTarget(text) {
		// the caller itself must be allowed to modify what its callee modifies
		if check {
			fc.frameCheckTarget(mt, pos, text)
		}
		for i, key := range mt.keys {
			switch mt.kind {
			case "memall":
				srt := memSort(mt.sorts[i])
				fc.heapGet(fc.cur, key, srt)
				fc.cur.heap[key] = fc.fresh("hvmem", srt)
				fc.cur.hac[key] = fc.cur.ac
			case "ghostall":
				srt := fieldSort(mt.sorts[i])
				fc.heapGet(fc.cur, key, srt)
				fc.cur.heap[key] = fc.fresh("hvall", srt)
				fc.cur.hac[key] = fc.cur.ac
			case "field", "ghost":
				srt := fieldSort(mt.sorts[i])
				arr := fc.heapGet(fc.cur, key, srt)
				fc.heapSet(fc.cur, key, srt, sx("store", arr, mt.ref, fc.fresh("hv", mt.sorts[i])))
			case "map":
				srt := mt.sorts[i]
				arr := fc.heapGet(fc.cur, key, srt)
				inner := srt[len("(Array Int ") : len(srt)-1]
				fc.heapSet(fc.cur, key, srt, sx("store", arr, mt.ref, fc.fresh("hvmap", inner)))
			case "mem":
				srt := memSort(mt.sorts[i])
				mem := fc.heapGet(fc.cur, key, srt)
				na := fc.fresh("hvarr", arrSort(sBV(64), mt.sorts[i]))
				oldInner := sx("select", mem, mt.ref)
				q := "i!q"
				fc.assume(fmt.Sprintf("(forall ((%s (_ BitVec 64))) (! (=> (not (and (bvule %s %s) (bvult %s %s))) (= (select %s %s) (select %s %s))) :pattern ((select %s %s))))",
					q, mt.lo, q, q, mt.hi, na, q, oldInner, q, na, q))
				fc.heapSet(fc.cur, key, srt, sx("store", mem, mt.ref, na))
				if fc.peelAlt == nil {
					fc.peelAlt = map[string]string{}
				}
				fc.peelAlt[fc.cur.heap[key]] = sx("bvuge", mt.lo, mt.hi)
			}
			fc.noteWrite(key)
		}
	}
}

// ---------------------------------------------------------------------------
// frame checks: a function with a modifies clause writes only what it lists
// (or what it allocated itself).

func (fc *FnCtx) ownTargets() []modTarget {
	if fc.c == nil || !fc.c.HasMod {
		return nil
	}
	if fc.ownT != nil {
		return fc.ownT
	}
	env := fc.newEnv(fc.entry, fc.entry)
	out := []modTarget{}
	// the targets are values of the entry state: facts about them (type invariants of slice headers) hold whatever
	// block happens to ask for them first
	saved := fc.reach
	fc.reach = "true"
	for _, m := range fc.c.Modifies {
		out = append(out, env.resolveTarget(m)...)
	}
	fc.reach = saved
	fc.ownT = out
	return out
}

// frames: the function's own modifies clause (if any) and the explicit frames of the loops the current block is in.
type frameSpec struct {
	targets []modTarget
	ac      string
	text    string
	label   string
}

func (fc *FnCtx) activeFrames() []frameSpec {
	var out []frameSpec
	if fc.c != nil && fc.c.HasMod {
		out = append(out, frameSpec{fc.ownTargets(), fc.entry.ac, "modifies " + strings.Join(fc.c.Modifies, ", "), ""})
	}
	for h, lf := range fc.loopTargets {
		if fc.loopBody[h][fc.curBlock] {
			out = append(out, frameSpec{lf.targets, lf.ac, "loop modifies " + lf.text, fmt.Sprintf("loop%d.", fc.loopOrd[h])})
		}
	}
	// behavioural subtyping covers the frame too: callers through the interface / function type rely on ITS modifies
	// clause, so every write of an implementor must also be inside that frame
	if fc.c != nil {
		for _, impl := range fc.c.Impl {
			ic := fc.e.specs.Contracts["functype:"+impl]
			if ic == nil {
				ic = fc.e.specs.Contracts["iface:"+impl]
			}
			if ic == nil || !ic.HasMod {
				continue
			}
			out = append(out, frameSpec{fc.implTargets(impl, ic), fc.entry.ac, "modifies " + strings.Join(ic.Modifies, ", ") + " (of " + impl + ")", "impl." + impl + "."})
		}
	}
	return out
}

// implTargets: the modifies clause of a contract this function implements, with that contract's parameter names bound
// to this function's parameters by position.
func (fc *FnCtx) implTargets(name string, ic *Contract) []modTarget {
	if t, ok := fc.implT[name]; ok {
		return t
	}
	env := fc.newEnv(fc.entry, fc.entry)
	env.vars = map[string]V{}
	names := ic.Params
	if ic.Kind == "functype" {
		names = names[1:]
	}
	for i, n := range names {
		if i < len(fc.fn.Params) {
			env.vars[n] = fc.vals[fc.fn.Params[i]]
		}
	}
	saved := fc.reach
	fc.reach = "true"
	out := []modTarget{}
	for _, m := range ic.Modifies {
		out = append(out, env.resolveTarget(m)...)
	}
	fc.reach = saved
	if fc.implT == nil {
		fc.implT = map[string][]modTarget{}
	}
	fc.implT[name] = out
	return out
}

func (fc *FnCtx) frameGoal(key, ref, idx string) string {
	return fc.frameGoalF(frameSpec{fc.ownTargets(), fc.entry.ac, "", ""}, key, ref, idx)
}

func (fc *FnCtx) frameGoalF(fs frameSpec, key, ref, idx string) string {
	alts := []string{sx(">=", ref, fs.ac)} // allocated after the frame began
	for _, t := range fs.targets {
		for _, k := range t.keys {
			if k != key {
				continue
			}
			switch t.kind {
			case "ghostall", "memall":
				alts = append(alts, "true")
			case "field", "ghost", "map":
				alts = append(alts, eq(ref, t.ref))
			case "mem":
				if idx == "" {
					alts = append(alts, eq(ref, t.ref))
				} else {
					alts = append(alts, and(eq(ref, t.ref), sx("bvule", t.lo, idx), sx("bvult", idx, t.hi)))
				}
			}
		}
	}
	return or(alts...)
}

func (fc *FnCtx) frameCheck(loc *Loc, pos token.Pos) {
	if fc.dry {
		return
	}
	cs := fc.e.comps(loc.Ty)
	if len(cs) == 0 {
		return
	}
	var key, idx string
	if loc.Kind == locField {
		key = loc.S + "." + loc.Pre + cs[0].Suf
	} else {
		key = fc.e.memKey(loc.Ty) + "." + cs[0].Suf
		idx = loc.Idx
	}
	for _, fs := range fc.activeFrames() {
		if fs.label == "" && fc.localRefs[loc.Ref] {
			continue // allocated by this very function
		}
		goal := fc.frameGoalF(fs, key, loc.Ref, idx)
		if goal == "true" {
			continue
		}
		fc.oblige("frame", fs.label+"store{"+fc.srcText(pos, isAssignLike)+"}", goal, pos, fc.cprops(), fs.text)
	}
}

func (fc *FnCtx) cprops() []string {
	if fc.c != nil {
		return fc.c.Props
	}
	return nil
}

func (fc *FnCtx) frameCheckMem(b V, pos token.Pos) {
	fc.frameCheckMemN(b, b.T[2], pos)
}

// frameCheckMemN: the first n elements of b are written.
func (fc *FnCtx) frameCheckMemN(b V, n string, pos token.Pos) {
	if fc.dry {
		return
	}
	et := elemOf(b.Ty)
	key := fc.e.memKey(et) + "." + fc.e.comps(et)[0].Suf
	for _, fs := range fc.activeFrames() {
		// the whole written slice must be inside a listed range, or fresh, or empty
		alts := []string{sx(">=", b.T[0], fs.ac), eq(n, bvLit(0, 64))}
		for _, t := range fs.targets {
			for _, k := range t.keys {
				if k == key && t.kind == "memall" {
					alts = append(alts, "true")
				}
				if k == key && t.kind == "mem" {
					alts = append(alts, and(eq(b.T[0], t.ref), sx("bvule", t.lo, b.T[1]), sx("bvule", add64(b.T[1], n), t.hi)))
				}
			}
		}
		fc.oblige("frame", fs.label+"write{"+fc.srcText(pos, isKind[*astCall])+"}", or(alts...), pos, fc.cprops(), fs.text)
	}
}

func (fc *FnCtx) frameCheckTarget(mt modTarget, pos token.Pos, text string) {
	if fc.dry || len(mt.keys) == 0 {
		return
	}
	for _, fs := range fc.activeFrames() {
		var goal string
		if mt.kind == "mem" {
			alts := []string{sx(">=", mt.ref, fs.ac), sx("bvuge", mt.lo, mt.hi)}
			for _, t := range fs.targets {
				for _, k := range t.keys {
					if k == mt.keys[0] && t.kind == "memall" {
						alts = append(alts, "true")
					}
					if k == mt.keys[0] && t.kind == "mem" {
						alts = append(alts, and(eq(mt.ref, t.ref), sx("bvule", t.lo, mt.lo), sx("bvule", mt.hi, t.hi)))
					}
				}
			}
			goal = or(alts...)
		} else {
			goal = or(eq(mt.ref, "(- 1)"), fc.frameGoalF(fs, mt.keys[0], mt.ref, ""))
		}
		fc.oblige("frame", fs.label+"call{"+fc.srcText(pos, isKind[*astCall])+"}.modifies{"+text+"}", goal, pos, fc.cprops(), fs.text)
	}
}

type astCall = ast.CallExpr

func isAssignLike(n ast.Node) bool {
	switch n.(type) {
	case *ast.AssignStmt, *ast.IncDecStmt:
		return true
	}
	return false
}

func identName(dr *ssa.DebugRef) string {
	if id, ok := dr.Expr.(*ast.Ident); ok {
		return id.Name
	}
	return ""
}

type readKey struct{ key, sort string }

// readKeys: the fixed list of heap arrays a heap-reading spec function depends on.
func (fc *FnCtx) readKeys(f *SpecFun) []readKey {
	var out []readKey
	for _, r := range f.Reads {
		if strings.HasPrefix(r, "M:") {
			switch r {
			case "M:ref":
				out = append(out, readKey{"M:ref.", memSort(sInt)})
			case "M:bv8":
				out = append(out, readKey{"M:bv8.", memSort(sBV(8))})
			case "M:bv16":
				out = append(out, readKey{"M:bv16.", memSort(sBV(16))})
			case "M:bv32":
				out = append(out, readKey{"M:bv32.", memSort(sBV(32))})
			case "M:bv64":
				out = append(out, readKey{"M:bv64.", memSort(sBV(64))})
			default:
				panic(specErr("hfun %s: unknown memory class %s", f.Name, r))
			}
			continue
		}
		if strings.HasPrefix(r, "map:") {
			// map:pkg.Type.field : the domain and value arrays of the map type of that field
			parts := strings.Split(strings.TrimPrefix(r, "map:"), ".")
			if len(parts) != 3 {
				panic(specErr("hfun %s: reads %s: want map:pkg.Type.field", f.Name, r))
			}
			t, err := fc.e.lookupType(parts[0]+"."+parts[1], nil)
			if err != nil {
				panic(specErr("hfun %s: %v", f.Name, err))
			}
			_, ft, ok := fieldPath(t, parts[2])
			if !ok || !isMap(ft) {
				panic(specErr("hfun %s: %s is not a map field", f.Name, r))
			}
			dom, _, vals, _ := fc.mapKeys(ft)
			out = append(out, readKey{dom, fc.keySort[dom]})
			for _, v := range vals {
				out = append(out, readKey{v, fc.keySort[v]})
			}
			continue
		}
		parts := strings.Split(r, ".")
		field := ""
		if len(parts) == 3 {
			field = parts[2]
			r = parts[0] + "." + parts[1]
		}
		t, err := fc.e.lookupType(r, nil)
		if err != nil {
			panic(specErr("hfun %s: %v", f.Name, err))
		}
		sk := fc.e.structKey(t)
		if field != "" {
			path, ft, ok := fieldPath(t, field)
			if !ok {
				panic(specErr("hfun %s: no field %s in %s", f.Name, field, r))
			}
			pre := ""
			for _, i := range path {
				pre += fmt.Sprintf("f%d_", i)
			}
			for _, c := range fc.e.comps(ft) {
				out = append(out, readKey{sk + "." + pre + c.Suf, fieldSort(c.Sort)})
			}
			continue
		}
		for _, c := range fc.e.comps(t) {
			out = append(out, readKey{sk + "." + c.Suf, fieldSort(c.Sort)})
		}
	}
	return out
}
