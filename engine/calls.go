package main

import (
	"sort"
	"fmt"
	"go/ast"
	"go/token"
	"go/types"
	"strings"

	"golang.org/x/tools/go/ssa"
)

func (e *Engine) funcID(fn *ssa.Function) int {
	if e.funcIDs == nil {
		e.funcIDs = map[*ssa.Function]int{}
	}
	if id, ok := e.funcIDs[fn]; ok {
		return id
	}
	id := 1000000 + len(e.funcIDs)
	e.funcIDs[fn] = id
	return id
}

// calleeName: canonical name used to look up the contract of a call.
func (fc *FnCtx) calleeOf(cc *ssa.CallCommon) (name string, fn *ssa.Function, kind string) {
	if cc.IsInvoke() {
		rt := cc.Value.Type()
		return fc.e.shortType(rt) + "." + cc.Method.Name(), nil, "invoke"
	}
	switch v := cc.Value.(type) {
	case *ssa.Function:
		return fc.e.canon(v), v, "static"
	case *ssa.MakeClosure:
		f := v.Fn.(*ssa.Function)
		return fc.e.canon(f), f, "closure"
	case *ssa.Builtin:
		return v.Name(), nil, "builtin"
	}
	return fc.e.shortType(cc.Value.Type()), nil, "funcvalue"
}

func (fc *FnCtx) call(in ssa.Instruction, cc *ssa.CallCommon, pos token.Pos) V {
	name, fn, kind := fc.calleeOf(cc)
	if kind != "builtin" {
		fc.syncPoint()
	}
	if fc.c != nil && fc.c.AtCall != nil && !fc.dry {
		for callee, cls := range fc.c.AtCall {
			if callee == name || callee == shortName(name) {
				env := fc.newEnv(fc.cur, fc.entry)
				// ARG0, ARG1, ...: the actual arguments of this call (receiver first)
				k := 0
				if cc.IsInvoke() {
					env.vars["ARG0"] = fc.val(cc.Value)
					k = 1
				}
				for i, a := range cc.Args {
					env.vars[fmt.Sprintf("ARG%d", i+k)] = fc.val(a)
				}
				if kind == "funcvalue" {
					env.vars["FN"] = fc.val(cc.Value) // the function value that is called
				}
				site := fc.srcText(pos, isKind[*ast.CallExpr])
				for _, cl := range cls {
					fc.oblige("atcall", shortName(name)+"."+cl.Label+"{"+site+"}", env.evalBool(cl.E), pos, fc.clauseProps(cl), cl.Text)
				}
			}
		}
	}
	if fc.c != nil && !fc.dry && fc.curBlock != nil {
		for h, body := range fc.loopBody {
			ls := fc.loopSpec(h)
			if ls == nil || len(ls.EachRound) == 0 || !(body[fc.curBlock] || h == fc.curBlock) {
				continue
			}
			for i, er := range ls.EachRound {
				if er.Callee != name && er.Callee != shortName(name) {
					continue
				}
				env := fc.newEnv(fc.cur, fc.entry)
				env.at = fc.curBlock
				// the loop's own variables as they are in this round (rangeindex: the head's counter, one behind the
				// element the round works on)
				var phis []*ssa.Phi
				for _, in := range h.Instrs {
					if ph, ok := in.(*ssa.Phi); ok {
						phis = append(phis, ph)
					} else {
						break
					}
				}
				for n, v := range fc.phiNames(phis, func(p *ssa.Phi) V { return fc.vals[p] }) {
					env.vars[n] = v
				}
				k := 0
				if cc.IsInvoke() {
					env.vars["ARG0"] = fc.val(cc.Value)
					k = 1
				}
				for j, a := range cc.Args {
					env.vars[fmt.Sprintf("ARG%d", j+k)] = fc.val(a)
				}
				if kind == "funcvalue" {
					env.vars["FN"] = fc.val(cc.Value)
				}
				key := fmt.Sprintf("ghost:eachround:%d:%d", fc.loopOrd[h], i)
				srt := fieldSort(sBool)
				arr := fc.heapGet(fc.cur, key, srt)
				fc.inBlockLocals = true
				condT := env.evalBool(er.Cond.E)
				fc.inBlockLocals = false
				fc.heapSet(fc.cur, key, srt, sx("store", arr, "0", or(sx("select", arr, "0"), condT)))
				fc.noteWrite(key)
			}
		}
	}
	var args []V
	if cc.IsInvoke() {
		args = append(args, fc.val(cc.Value))
	}
	for _, a := range cc.Args {
		args = append(args, fc.val(a))
	}
	var resTy types.Type = cc.Signature().Results()
	if cc.Signature().Results().Len() == 1 {
		resTy = cc.Signature().Results().At(0).Type()
	}
	if name == "(*sync.Once).Do" && len(cc.Args) == 2 {
		return fc.onceDo(cc, args, pos)
	}
	switch kind {
	case "builtin":
		return fc.builtin(name, cc, args, resTy, pos)
	case "invoke":
		recv := args[0]
		fc.safe("nilcall", not(eq(recv.T[0], "0")), pos, isKind[*ast.CallExpr])
		fc.assume(not(eq(recv.T[0], "0")))
		if c, ok := fc.e.specs.Contracts["iface:"+name]; ok {
			return fc.applyContract(c, name, args, cc.Signature(), resTy, pos)
		}
		return fc.unknownCall(name, args, resTy, false)
	case "funcvalue":
		fv := fc.val(cc.Value)
		if !fc.unsafeVals[fv.T[0]] {
			fc.safe("nilcall", not(eq(fv.T[0], "0")), pos, isKind[*ast.CallExpr])
		}
		if c, ok := fc.e.specs.Contracts["functype:"+name]; ok {
			return fc.applyContract(c, name, append([]V{fv}, args...), cc.Signature(), resTy, pos)
		}
		return fc.unknownCall("func value of type "+name, args, resTy, true)
	}
	// static / closure
	if v, ok := fc.model(name, fn, args, resTy, pos); ok {
		return v
	}
	if c, ok := fc.e.specs.Contracts[name]; ok {
		if kind == "closure" {
			// bindings become the free variables, addressed by name
			mc := cc.Value.(*ssa.MakeClosure)
			extra := map[string]V{}
			for i, fvv := range fn.FreeVars {
				bv := fc.val(mc.Bindings[i])
				if isPointer(bv.Ty) {
					extra[fvv.Name()] = fc.load(fc.cur, fc.locOf(bv))
				}
			}
			return fc.applyContractX(c, name, args, cc.Signature(), resTy, pos, extra)
		}
		return fc.applyContract(c, name, args, cc.Signature(), resTy, pos)
	}
	repo := fn != nil && fn.Pkg != nil && fc.e.isRepoPkg(fn.Pkg.Pkg.Path())
	if fn != nil && fn.Pkg == nil && fn.Parent() != nil {
		repo = true
	}
	return fc.unknownCall(name, args, resTy, repo)
}

// unknownCall: a callee without contract may return anything; a repository
// function may also modify anything, an external one only what its arguments reach.
func (fc *FnCtx) unknownCall(name string, args []V, resTy types.Type, everything bool) V {
	fc.uncontracted[name] = true
	if everything {
		fc.noteHavocAll()
		fc.havocAll(fc.cur)
	} else {
		fc.assumptions["external function without contract modifies only objects reachable from its arguments (by type): "+name] = true
		for _, a := range args {
			fc.havocReachable(a.Ty, 0)
			fc.havocGhostsOf(a)
		}
		nac := fc.fresh("ac", sInt)
		fc.assume(sx(">=", nac, fc.cur.ac))
		fc.cur.ac = nac
		for _, k := range fc.havocked {
			fc.cur.hac[k] = nac
		}
		fc.havocked = nil
	}
	return fc.freshWF(resTy, "res_"+shortName(name), fc.cur)
}

// havocGhostsOf: an unknown function that is handed an object may do to it whatever the object's type allows - read
// from a reader, write to a writer, reset a buffer. The ghost state attached to that object (the cursor of a reader, the
// log of a writer, ...) is therefore unknown afterwards, unless the ghost is declared stable.
func (fc *FnCtx) havocGhostsOf(a V) {
	if a.Ty == nil || len(a.T) == 0 {
		return
	}
	switch {
	case isIface(a.Ty):
		if len(a.T) < 2 {
			return
		}
	case isPointer(a.Ty):
	default:
		return
	}
	var names []string
	for n := range fc.e.specs.Ghosts {
		names = append(names, n)
	}
	sort.Strings(names)
	for _, n := range names {
		g := fc.e.specs.Ghosts[n]
		if g.Stable || g.Arg == "" {
			continue
		}
		gt, err := fc.e.lookupType(g.Arg, nil)
		if err != nil || gt == nil {
			continue
		}
		compatible := types.Identical(gt, a.Ty) || isIface(a.Ty)
		if it, ok := gt.Underlying().(*types.Interface); ok && !compatible {
			compatible = types.Implements(a.Ty, it)
		}
		if !compatible {
			continue
		}
		env := fc.newEnv(fc.cur, fc.entry)
		obj := a
		obj.Loc = nil
		keys, srts, gid, _ := env.ghostKeys(g, obj)
		for i, k := range keys {
			srt := fieldSort(srts[i])
			fc.keySort[k] = srt
			arr := fc.heapGet(fc.cur, k, srt)
			fc.heapSet(fc.cur, k, srt, sx("store", arr, gid, fc.fresh("hvg:"+n, srts[i])))
			fc.noteWrite(k)
			fc.assumptions["an external function without contract may change the ghost state ("+n+") of the objects it is handed"] = true
		}
	}
}

func shortName(n string) string {
	if i := strings.LastIndexAny(n, "./)"); i >= 0 && i+1 < len(n) {
		return n[i+1:]
	}
	return n
}

func (fc *FnCtx) havocReachable(t types.Type, depth int) {
	if t == nil || depth > 2 {
		return
	}
	switch u := t.Underlying().(type) {
	case *types.Slice:
		mk := fc.e.memKey(u.Elem())
		for _, c := range fc.e.comps(u.Elem()) {
			key := mk + "." + c.Suf
			fc.heapGet(fc.cur, key, memSort(c.Sort))
			fc.cur.heap[key] = fc.fresh("hv:"+key, memSort(c.Sort))
			delete(fc.cur.hac, key)
			fc.havocked = append(fc.havocked, key)
			fc.noteWrite(key)
		}
		fc.havocReachable(u.Elem(), depth+1)
	case *types.Pointer:
		el := u.Elem()
		if isStruct(el) && !fc.e.isOpaqueStruct(el) {
			sk := fc.e.structKey(el)
			for _, c := range fc.e.comps(el) {
				key := sk + "." + c.Suf
				fc.heapGet(fc.cur, key, fieldSort(c.Sort))
				fc.cur.heap[key] = fc.fresh("hv:"+key, fieldSort(c.Sort))
				fc.havocked = append(fc.havocked, key)
				fc.noteWrite(key)
			}
		}
	case *types.Interface:
		// an interface argument may hide any pointer: be conservative for non-empty repo-defined dynamic types
	}
}

// ---------------------------------------------------------------------------
// builtins

func (fc *FnCtx) builtin(name string, cc *ssa.CallCommon, args []V, resTy types.Type, pos token.Pos) V {
	switch name {
	case "len":
		a := args[0]
		switch {
		case isSlice(a.Ty):
			return V{Ty: resTy, T: []string{a.T[2]}}
		case isString(a.Ty):
			return V{Ty: resTy, T: []string{sx("slen", a.T[0])}}
		case isMap(a.Ty):
			l := fc.fresh("maplen", sBV(64))
			fc.assume(sx("bvsle", bvLit(0, 64), l))
			return V{Ty: resTy, T: []string{l}}
		case isPointer(a.Ty):
			arr := a.Ty.Underlying().(*types.Pointer).Elem().Underlying().(*types.Array)
			return V{Ty: resTy, T: []string{bvLit(uint64(arr.Len()), 64)}}
		}
		if arr, ok := a.Ty.Underlying().(*types.Array); ok {
			return V{Ty: resTy, T: []string{bvLit(uint64(arr.Len()), 64)}}
		}
		l := fc.fresh("chanlen", sBV(64))
		fc.assume(sx("bvsle", bvLit(0, 64), l))
		return V{Ty: resTy, T: []string{l}}
	case "cap":
		a := args[0]
		if isSlice(a.Ty) {
			return V{Ty: resTy, T: []string{a.T[3]}}
		}
		return fc.freshWF(resTy, "cap", fc.cur)
	case "append":
		return fc.appendBuiltin(cc, args, resTy, pos)
	case "copy":
		return fc.copyBuiltin(args, resTy, pos)
	case "close":
		ch := args[0]
		arr := fc.heapGet(fc.cur, "ghost:closed", fieldSort(sBool))
		fc.safe("close", and(not(eq(ch.T[0], "0")), not(sx("select", arr, ch.T[0]))), pos, isKind[*ast.CallExpr])
		fc.heapSet(fc.cur, "ghost:closed", fieldSort(sBool), sx("store", arr, ch.T[0], "true"))
		fc.noteWrite("ghost:closed")
		return V{Ty: resTy}
	case "panic":
		if !(fc.c != nil && fc.c.MayPanic) {
			fc.safe("panic", "false", pos, isKind[*ast.CallExpr])
		}
		fc.assume("false")
		return V{Ty: resTy}
	case "recover":
		fc.recovered = true
		return fc.freshWF(resTy, "recovered", fc.cur)
	case "delete":
		m := args[0]
		mt := m.Ty
		dom, _, _, _ := fc.mapKeys(mt)
		kt := fc.mapKeyTerm(mt, args[1])
		fc.frameCheckMap(mt, m, pos)
		d := fc.heapGet(fc.cur, dom, fc.keySort[dom])
		fc.heapSet(fc.cur, dom, fc.keySort[dom], sx("store", d, m.T[0], sx("store", sx("select", d, m.T[0]), kt, "false")))
		fc.noteWrite(dom)
		return V{Ty: resTy}
	case "print", "println":
		return V{Ty: resTy}
	case "min", "max":
		a, b := args[0], args[1]
		op := "bvslt"
		if isUnsigned(a.Ty) {
			op = "bvult"
		}
		c := sx(op, a.T[0], b.T[0])
		if name == "max" {
			c = not(c)
		}
		return V{Ty: resTy, T: []string{ite(c, a.T[0], b.T[0])}}
	}
	panic(unsupported("builtin " + name))
}

func (fc *FnCtx) appendBuiltin(cc *ssa.CallCommon, args []V, resTy types.Type, pos token.Pos) V {
	s, t := args[0], args[1]
	et := elemOf(resTy)
	mk := fc.e.memKey(et)
	cs := fc.e.comps(et)
	if isString(t.Ty) {
		// append([]byte, string...)
		tl := sx("slen", t.T[0])
		t = V{Ty: types.NewSlice(types.Typ[types.Uint8]), T: []string{"?str", bvLit(0, 64), tl, tl}, Loc: nil}
		t.T[0] = "str:" + args[1].T[0]
	}
	n := t.T[2]
	newLen := fc.def("applen", sBV(64), add64(s.T[2], n))
	fits := fc.def("appfits", sBool, sx("bvsle", newLen, s.T[3]))
	nb := fc.allocRef("appbase")
	ncap := fc.fresh("appcap", sBV(64))
	fc.assume(and(sx("bvsle", newLen, ncap), sx("bvult", ncap, bvLit(1<<46, 64))))
	base := fc.def("appb", sInt, ite(and(fits, not(eq(s.T[0], "0"))), s.T[0], nb))
	inplace := and(fits, not(eq(s.T[0], "0")))
	if !fc.dry {
		// an append that fits writes behind the slice's length into its existing backing array
		for _, fs := range fc.activeFrames() {
			key := mk + "." + cs[0].Suf
			alts := []string{not(inplace), sx(">=", s.T[0], fs.ac), eq(n, bvLit(0, 64))}
			for _, t := range fs.targets {
				for _, k := range t.keys {
					if k == key && t.kind == "memall" {
						alts = append(alts, "true")
					}
					if k == key && t.kind == "mem" {
						alts = append(alts, and(eq(s.T[0], t.ref), sx("bvule", t.lo, add64(s.T[1], s.T[2])), sx("bvule", add64(s.T[1], newLen), t.hi)))
					}
				}
			}
			if g := or(alts...); g != "true" {
				fc.oblige("frame", fs.label+"append{"+fc.srcText(pos, isKind[*ast.CallExpr])+"}", g, pos, fc.cprops(), fs.text)
			}
		}
	}
	// is the appended data a single element stored in a one-element varargs array?
	single := ""
	_ = single
	for _, c := range cs {
		key := mk + "." + c.Suf
		mem := fc.heapGet(fc.cur, key, memSort(c.Sort))
		old := sx("select", mem, s.T[0])
		if k, ok := smtValToInt(n); ok && strings.HasPrefix(n, "#x") && k <= 4 && !strings.HasPrefix(t.T[0], "str:") {
			// fast path: a constant number of appended elements, no quantifier
			na := old
			tmem := sx("select", mem, t.T[0])
			for j := int64(0); j < k; j++ {
				na = sx("store", na, add64(s.T[1], add64(s.T[2], bvLit(uint64(j), 64))), sx("select", tmem, add64(t.T[1], bvLit(uint64(j), 64))))
			}
			fc.heapSet(fc.cur, key, memSort(c.Sort), sx("store", mem, base, na))
			fc.noteWrite(key)
			continue
		}
		na := fc.fresh("apparr", arrSort(sBV(64), c.Sort))
		i := "i!q"
		var src string
		if strings.HasPrefix(t.T[0], "str:") {
			src = fmt.Sprintf("(select (strarr %s) (bvsub %s (bvadd %s %s)))", strings.TrimPrefix(t.T[0], "str:"), i, s.T[1], s.T[2])
		} else {
			tmem := sx("select", mem, t.T[0])
			src = fmt.Sprintf("(select %s (bvadd %s (bvsub %s (bvadd %s %s))))", tmem, t.T[1], i, s.T[1], s.T[2])
		}
		lo := add64(s.T[1], s.T[2])
		hi := add64(s.T[1], newLen)
		fc.assume(fmt.Sprintf("(forall ((%s (_ BitVec 64))) (! (= (select %s %s) (ite (and (bvule %s %s) (bvult %s %s)) %s (select %s %s))) :pattern ((select %s %s))))",
			i, na, i, lo, i, i, hi, src, old, i, na, i))
		fc.heapSet(fc.cur, key, memSort(c.Sort), sx("store", mem, base, na))
		fc.noteWrite(key)
	}
	_ = inplace
	res := V{Ty: resTy, T: []string{base, s.T[1], newLen, ite(inplace, s.T[3], ncap)}}
	// appending nothing to a nil slice yields nil
	nilres := and(eq(s.T[0], "0"), eq(n, bvLit(0, 64)))
	res.T[0] = ite(nilres, "0", res.T[0])
	res.T[3] = ite(nilres, bvLit(0, 64), res.T[3])
	return fc.defV("app", res)
}

func (fc *FnCtx) copyBuiltin(args []V, resTy types.Type, pos token.Pos) V {
	d, s := args[0], args[1]
	var sl string
	if isString(s.Ty) {
		sl = sx("slen", s.T[0])
	} else {
		sl = s.T[2]
	}
	n := fc.def("copyn", sBV(64), ite(sx("bvslt", d.T[2], sl), d.T[2], sl))
	et := elemOf(d.Ty)
	mk := fc.e.memKey(et)
	if dk, ok := lit64(d.T[2]); ok && dk <= 16 && !isString(s.Ty) {
		// destination of a small constant length: explicit stores, no quantifier
		for _, c := range fc.e.comps(et) {
			key := mk + "." + c.Suf
			mem := fc.heapGet(fc.cur, key, memSort(c.Sort))
			old := sx("select", mem, d.T[0])
			srcInner := sx("select", mem, s.T[0])
			na := old
			for j := uint64(0); j < dk; j++ {
				at := add64(d.T[1], bvLit(j, 64))
				na = sx("store", na, at, ite(sx("bvult", bvLit(j, 64), n), sx("select", srcInner, add64(s.T[1], bvLit(j, 64))), sx("select", old, at)))
			}
			fc.frameCheckMemN(d, n, pos)
			fc.heapSet(fc.cur, key, memSort(c.Sort), ite(eq(n, bvLit(0, 64)), mem, sx("store", mem, d.T[0], na)))
			fc.noteWrite(key)
		}
		return V{Ty: resTy, T: []string{n}}
	}
	for _, c := range fc.e.comps(et) {
		key := mk + "." + c.Suf
		mem := fc.heapGet(fc.cur, key, memSort(c.Sort))
		old := sx("select", mem, d.T[0])
		na := fc.fresh("cparr", arrSort(sBV(64), c.Sort))
		i := "i!q"
		var src string
		if isString(s.Ty) {
			src = fmt.Sprintf("(select (strarr %s) (bvsub %s %s))", s.T[0], i, d.T[1])
		} else {
			src = fmt.Sprintf("(select (select %s %s) (bvadd %s (bvsub %s %s)))", mem, s.T[0], s.T[1], i, d.T[1])
		}
		hi := add64(d.T[1], n)
		fc.assume(fmt.Sprintf("(forall ((%s (_ BitVec 64))) (! (= (select %s %s) (ite (and (bvule %s %s) (bvult %s %s)) %s (select %s %s))) :pattern ((select %s %s))))",
			i, na, i, d.T[1], i, i, hi, src, old, i, na, i))
		fc.frameCheckMemN(d, n, pos)
		// copying nothing leaves memory untouched (also covers a nil destination)
		fc.heapSet(fc.cur, key, memSort(c.Sort), ite(eq(n, bvLit(0, 64)), mem, sx("store", mem, d.T[0], na)))
		fc.noteWrite(key)
	}
	return V{Ty: resTy, T: []string{n}}
}

// ---------------------------------------------------------------------------
// exact models of a few standard-library functions (trusted; listed in evidence)

func (fc *FnCtx) readBE(b V, n int, pos token.Pos) string {
	fc.safe("index", sx("bvsle", bvLit(uint64(n), 64), b.T[2]), pos, isKind[*ast.CallExpr])
	fc.assume(sx("bvsle", bvLit(uint64(n), 64), b.T[2]))
	mem := fc.heapGet(fc.cur, "M:bv8.", memSort(sBV(8)))
	inner := sx("select", mem, b.T[0])
	var parts []string
	for i := 0; i < n; i++ {
		parts = append(parts, sx("select", inner, add64(b.T[1], bvLit(uint64(i), 64))))
	}
	return sx("concat", parts...)
}

func (fc *FnCtx) writeBE(b V, val string, n int, pos token.Pos) {
	fc.safe("index", sx("bvsle", bvLit(uint64(n), 64), b.T[2]), pos, isKind[*ast.CallExpr])
	fc.assume(sx("bvsle", bvLit(uint64(n), 64), b.T[2]))
	fc.frameCheckMem(b, pos)
	mem := fc.heapGet(fc.cur, "M:bv8.", memSort(sBV(8)))
	inner := sx("select", mem, b.T[0])
	for i := 0; i < n; i++ {
		hi := (n-i)*8 - 1
		inner = sx("store", inner, add64(b.T[1], bvLit(uint64(i), 64)), sx(fmt.Sprintf("(_ extract %d %d)", hi, hi-7), val))
	}
	fc.heapSet(fc.cur, "M:bv8.", memSort(sBV(8)), sx("store", mem, b.T[0], inner))
	fc.noteWrite("M:bv8.")
}

func (fc *FnCtx) model(name string, fn *ssa.Function, args []V, resTy types.Type, pos token.Pos) (V, bool) {
	used := func() { fc.assumptions["exact model of "+name] = true }
	switch name {
	case "(binary.bigEndian).Uint16":
		used()
		return V{Ty: resTy, T: []string{fc.readBE(args[1], 2, pos)}}, true
	case "(binary.bigEndian).Uint32":
		used()
		return V{Ty: resTy, T: []string{fc.readBE(args[1], 4, pos)}}, true
	case "(binary.bigEndian).Uint64":
		used()
		return V{Ty: resTy, T: []string{fc.readBE(args[1], 8, pos)}}, true
	case "(binary.bigEndian).PutUint16":
		used()
		fc.writeBE(args[1], args[2].T[0], 2, pos)
		return V{Ty: resTy}, true
	case "(binary.bigEndian).PutUint32":
		used()
		fc.writeBE(args[1], args[2].T[0], 4, pos)
		return V{Ty: resTy}, true
	case "(binary.bigEndian).PutUint64":
		used()
		fc.writeBE(args[1], args[2].T[0], 8, pos)
		return V{Ty: resTy}, true
	case "math.Float32bits", "math.Float32frombits", "math.Float64bits", "math.Float64frombits":
		fc.assumptions["float values are modelled by their IEEE bit pattern; Float32frombits/Float32bits are the identity on it (NaN payloads preserved: true on amd64/arm64)"] = true
		return V{Ty: resTy, T: []string{args[0].T[0]}}, true
	case "time.Unix":
		used()
		fc.assumptions["time.Time is modelled as whole seconds since the Unix epoch (nanoseconds and location dropped)"] = true
		return V{Ty: resTy, T: []string{args[0].T[0]}}, true
	case "(time.Time).Unix":
		used()
		return V{Ty: resTy, T: []string{args[0].T[0]}}, true
	case "(net.IP).To4":
		used()
		return fc.modelTo4(args[0], resTy), true
	case "(net.IP).To16":
		used()
		return fc.modelTo16(args[0], resTy), true
	case "fmt.Errorf", "errors.New":
		r := fc.allocRef("err")
		tag := fmt.Sprint(fc.e.tagOfName("*errors.errorString"))
		return V{Ty: resTy, T: []string{tag, r}}, true
	case "fmt.Sprintf", "fmt.Sprint", "fmt.Sprintln", "strconv.Itoa":
		return fc.freshWF(resTy, "sprintf", fc.cur), true
	case "fmt.Fprintf", "fmt.Fprint", "fmt.Fprintln":
		fc.assumptions["fmt.Fprint* writes only to its (opaque) writer argument"] = true
		return fc.freshWF(resTy, "fprintf", fc.cur), true
	case "log.Printf", "log.Println", "log.Print":
		return V{Ty: resTy}, true
	}
	return V{}, false
}

func (e *Engine) tagOfName(n string) int {
	if id, ok := e.tags[n]; ok {
		return id
	}
	id := len(e.tagList) + 1
	e.tags[n] = id
	e.tagList = append(e.tagList, n)
	return id
}

func (fc *FnCtx) byteAt(st *State, s V, k int) string {
	mem := fc.heapGet(st, "M:bv8.", memSort(sBV(8)))
	return sx("select", sx("select", mem, s.T[0]), add64(s.T[1], bvLit(uint64(k), 64)))
}

// net.IP.To4: len 4 -> ip; len 16 with the v4-in-v6 prefix -> ip[12:16]; else nil.
func (fc *FnCtx) modelTo4(ip V, resTy types.Type) V {
	l := ip.T[2]
	is4 := eq(l, bvLit(4, 64))
	env := fc.newEnv(fc.cur, fc.cur)
	env.vars["ip!"] = ip
	mapped := fc.def("v4mapped", sBool, env.evalBool(&ECall{Fun: &EIdent{"v4mapped"}, Args: []Expr{&EIdent{"ip!"}}}))
	sub := V{Ty: resTy, T: []string{ip.T[0], add64(ip.T[1], bvLit(12, 64)), bvLit(4, 64), sub64(ip.T[3], bvLit(12, 64))}}
	z := fc.zero(resTy)
	r := fc.iteV(is4, V{Ty: resTy, T: ip.T}, fc.iteV(mapped, sub, z))
	return fc.defV("to4", r)
}

// net.IP.To16: len 4 -> fresh 16 bytes (v4-in-v6); len 16 -> ip; else nil.
func (fc *FnCtx) modelTo16(ip V, resTy types.Type) V {
	l := ip.T[2]
	nb := fc.allocRef("to16")
	mem := fc.heapGet(fc.cur, "M:bv8.", memSort(sBV(8)))
	inner := fmt.Sprintf("((as const %s) #x00)", arrSort(sBV(64), sBV(8)))
	inner = sx("store", inner, bvLit(10, 64), "#xff")
	inner = sx("store", inner, bvLit(11, 64), "#xff")
	for k := 0; k < 4; k++ {
		inner = sx("store", inner, bvLit(uint64(12+k), 64), fc.byteAt(fc.cur, ip, k))
	}
	fc.heapSet(fc.cur, "M:bv8.", memSort(sBV(8)), ite(eq(l, bvLit(4, 64)), sx("store", mem, nb, inner), mem))
	fc.noteWrite("M:bv8.")
	fresh := V{Ty: resTy, T: []string{nb, bvLit(0, 64), bvLit(16, 64), bvLit(16, 64)}}
	z := fc.zero(resTy)
	r := fc.iteV(eq(l, bvLit(4, 64)), fresh, fc.iteV(eq(l, bvLit(16, 64)), V{Ty: resTy, T: ip.T}, z))
	return fc.defV("to16", r)
}

// ---------------------------------------------------------------------------
// contracts at call sites

func (fc *FnCtx) applyContract(c *Contract, name string, args []V, sig *types.Signature, resTy types.Type, pos token.Pos) V {
	return fc.applyContractX(c, name, args, sig, resTy, pos, nil)
}

func (fc *FnCtx) applyContractX(c *Contract, name string, args []V, sig *types.Signature, resTy types.Type, pos token.Pos, extra map[string]V) V {
	if fc.usedContracts == nil {
		fc.usedContracts = map[*Contract]bool{}
	}
	fc.usedContracts[c] = true
	if c.Trusted {
		fc.assumptions["trusted contract: "+c.Name] = true
	}
	env := fc.newEnv(fc.cur, fc.cur)
	env.vars = map[string]V{}
	env.contract = c
	if p := fc.e.byName[c.Pkg]; c.Pkg != "" && p != nil {
		env.pkg = p // names in a contract resolve in the package the contract was written in
	}
	for k, v := range extra {
		env.vars[k] = v
	}
	if len(c.Params) != len(args) {
		panic(unsupported(fmt.Sprintf("contract %s has %d parameters, call has %d arguments", c.Name, len(c.Params), len(args))))
	}
	for i, n := range c.Params {
		env.vars[n] = args[i]
	}
	site := fc.srcText(pos, isKind[*ast.CallExpr])
	if c.MayPanic && !fc.dry && !fc.inPanicExit {
		fc.panicExit(name, site, pos)
	}
	if !fc.dry {
		for _, r := range c.Requires {
			if fc.c != nil && fc.c.AssumePre != nil {
				why, ok := fc.c.AssumePre[shortName(name)+"."+r.Label]
				if !ok {
					why, ok = fc.c.AssumePre[shortName(name)]
				}
				if ok {
					fc.assumptions[fmt.Sprintf("precondition %s of %s is assumed, not checked, at the calls in %s: %s", r.Label, shortName(name), fc.name, why)] = true
					continue
				}
			}
			fc.oblige("pre", shortName(name)+"."+r.Label+"{"+site+"}", env.evalBool(r.E), pos, fc.propsOf(c, r), r.Text)
		}
	}
	for _, r := range c.Requires {
		fc.assume(env.evalBool(r.E))
	}
	old := fc.cur.clone()
	// frame
	if !c.HasMod {
		fc.noteHavocAll()
		fc.havocAll(fc.cur)
		fc.uncontracted[name+" (no modifies clause)"] = true
	} else {
		if !c.Pure {
			nac := fc.fresh("ac", sInt)
			fc.assume(sx(">=", nac, fc.cur.ac))
			fc.cur.ac = nac
		}
		for _, m := range c.Modifies {
			fc.havocTarget(env, old, m, pos)
		}
	}
	// results
	var res V
	res.Ty = resTy
	env2 := fc.newEnv(fc.cur, old)
	env2.vars = env.vars
	env2.contract = c
	env2.pkg = env.pkg
	env2.oldAc = old.ac
	if tup, ok := resTy.(*types.Tuple); ok {
		for i := 0; i < tup.Len(); i++ {
			rv := fc.freshWF(tup.At(i).Type(), "r_"+shortName(name), fc.cur)
			res.T = append(res.T, rv.T...)
			if i < len(c.Results) {
				env2.vars[c.Results[i]] = rv
			}
		}
	} else {
		rv := fc.freshWF(resTy, "r_"+shortName(name), fc.cur)
		res.T = rv.T
		if len(c.Results) > 0 {
			env2.vars[c.Results[0]] = rv
		}
	}
	for _, en := range c.Ensures {
		if fc.tierActive(en.Props) {
			fc.assume(env2.evalBool(en.E))
		}
	}
	// a function that implements an interface / function-type contract also gives what that contract promises
	for _, impl := range c.Impl {
		ic := fc.e.specs.Contracts["functype:"+impl]
		if ic == nil {
			ic = fc.e.specs.Contracts["iface:"+impl]
		}
		if ic == nil {
			continue
		}
		env3 := fc.newEnv(fc.cur, old)
		if p := fc.e.byName[ic.Pkg]; ic.Pkg != "" && p != nil {
			env3.pkg = p
		}
		env3.vars = map[string]V{}
		env3.oldAc = old.ac
		names := ic.Params
		if ic.Kind == "functype" {
			names = names[1:]
		}
		for i, n := range names {
			if i < len(args) {
				env3.vars[n] = args[i]
			}
		}
		for i, n := range ic.Results {
			if i < len(c.Results) {
				env3.vars[n] = env2.vars[c.Results[i]]
			}
		}
		for _, en := range ic.Ensures {
			fc.assume(env3.evalBool(en.E))
		}
	}
	return res
}

func (fc *FnCtx) propsOf(c *Contract, cl *Clause) []string {
	if len(cl.Props) > 0 {
		return cl.Props
	}
	return c.Props
}

// spawn (go statement): the callee's precondition must hold; nothing else is known.
func (fc *FnCtx) spawn(cc *ssa.CallCommon, pos token.Pos) {
	name, _, _ := fc.calleeOf(cc)
	arr := fc.heapGet(fc.cur, "ghost:spawned", fieldSort(sInt))
	_ = arr
	fc.spawned = append(fc.spawned, name)
	fc.cur.spawned = true
	fc.noteSpawnInLoops() // a loop that starts goroutines and goes round again: nothing is known at its head but its invariants
	if c, ok := fc.e.specs.Contracts[name]; ok && !fc.dry {
		var args []V
		if cc.IsInvoke() {
			args = append(args, fc.val(cc.Value))
		}
		for _, a := range cc.Args {
			args = append(args, fc.val(a))
		}
		env := fc.newEnv(fc.cur, fc.cur)
		env.vars = map[string]V{}
		for i, n := range c.Params {
			if i < len(args) {
				env.vars[n] = args[i]
			}
		}
		site := fc.srcText(pos, isKind[*ast.CallExpr])
		for _, r := range c.Requires {
			fc.oblige("pre", "go."+shortName(name)+"."+r.Label+"{"+site+"}", env.evalBool(r.E), pos, fc.propsOf(c, r), r.Text)
		}
	}
}

// onceDo: exact model of sync.Once.Do in the sequential fragment: the function runs iff the Once has not fired yet
// (ghost:oncedone), and afterwards it has.
func (fc *FnCtx) onceDo(cc *ssa.CallCommon, args []V, pos token.Pos) V {
	fc.assumptions["exact model of (*sync.Once).Do (sequential: f runs iff the Once has not fired; no concurrent Do)"] = true
	o := args[0]
	fc.safe("nil", not(eq(o.T[0], "0")), pos, isKind[*ast.CallExpr])
	srt := fieldSort(sBool)
	arr := fc.heapGet(fc.cur, "ghost:oncedone", srt)
	done := fc.def("oncedone", sBool, sx("select", arr, o.T[0]))
	before := fc.cur.clone()
	saved := fc.reach
	fc.reach = fc.def("oncerun", sBool, and(saved, not(done)))
	inner := &ssa.CallCommon{Value: cc.Args[1]}
	fc.call(nil, inner, pos)
	after := fc.cur
	fc.reach = saved
	fc.cur = fc.mergeStates([]string{not(done), done}, []*State{after, before})
	arr2 := fc.heapGet(fc.cur, "ghost:oncedone", srt)
	fc.heapSet(fc.cur, "ghost:oncedone", srt, sx("store", arr2, o.T[0], "true"))
	fc.noteWrite("ghost:oncedone")
	return V{Ty: types.NewTuple()}
}

// panicExit: the exceptional exit of a call to a callee that may panic. The callee may have done anything before it
// panicked (everything is havocked on a copy of the state); the deferred functions registered so far run; then
//   - a function declared `recovers` must have, among those deferred functions, one that calls recover() itself
//     (recover stops a panic only when the deferred function calls it directly), and its `onpanic` clauses must hold;
//   - a function that neither recovers nor is declared may_panic lets the panic through unannounced: reported.
func (fc *FnCtx) panicExit(callee, site string, pos token.Pos) {
	if fc.c == nil {
		return
	}
	if !fc.c.Recovers {
		if !fc.c.MayPanic {
			fc.oblige("panic", "propagates_unannounced{"+site+"}", "false", pos, fc.cprops(), "callee "+shortName(callee)+" may panic: declare this function may_panic or recover")
			return
		}
		// the panic passes through this function: its deferred calls run, then it leaves exceptionally. Its onpanic
		// clauses are exceptional postconditions (e.g. "no lock is left held"), checked in a state where the callee may
		// have done anything (only ghosts declared stable, such as lock counters, survive)
		if len(fc.c.OnPanic) == 0 || fc.dry || fc.inPanicExit {
			return
		}
		saved, savedBlock := fc.cur, fc.curBlock
		fc.inPanicExit = true
		fc.cur = saved.clone()
		fc.havocAll(fc.cur)
		fc.runDefers()
		env := fc.newEnv(fc.cur, fc.entry)
		for _, cl := range fc.c.OnPanic {
			fc.oblige("panic", cl.Label+"{"+site+"}", env.evalBool(cl.E), pos, fc.clauseProps(cl), cl.Text)
		}
		fc.cur, fc.curBlock = saved, savedBlock
		fc.inPanicExit = false
		return
	}
	saved, savedBlock := fc.cur, fc.curBlock
	fc.inPanicExit = true
	fc.cur = saved.clone()
	fc.havocAll(fc.cur)
	found := false
	for _, d := range fc.defers {
		if mc, ok := d.instr.Call.Value.(*ssa.MakeClosure); ok {
			if fn, ok := mc.Fn.(*ssa.Function); ok && callsRecoverDirectly(fn) {
				found = true
			}
		}
	}
	goal := "false"
	if found {
		goal = "true"
	}
	fc.oblige("panic", "stopped_by_a_deferred_recover{"+site+"}", goal, pos, fc.cprops(), "a deferred function literal of this function calls recover() itself")
	fc.runDefers()
	env := fc.newEnv(fc.cur, fc.entry)
	for _, cl := range fc.c.OnPanic {
		fc.oblige("panic", cl.Label+"{"+site+"}", env.evalBool(cl.E), pos, fc.clauseProps(cl), cl.Text)
	}
	fc.cur, fc.curBlock = saved, savedBlock
	fc.inPanicExit = false
}

func callsRecoverDirectly(fn *ssa.Function) bool {
	for _, b := range fn.Blocks {
		for _, in := range b.Instrs {
			if c, ok := in.(*ssa.Call); ok {
				if bi, ok := c.Call.Value.(*ssa.Builtin); ok && bi.Name() == "recover" {
					return true
				}
			}
		}
	}
	return false
}
