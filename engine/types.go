package main

// Flattening of Go types to SMT components, symbolic values, locations.

import (
	"fmt"
	"go/types"
	"math/big"
	"strings"
)

type Comp struct {
	Suf  string
	Sort string
	Ref  bool // the component is an allocation id (pointer, slice base, map, chan, func)
}

// V is a symbolic value: the Go type and one SMT term per component.
type V struct {
	Ty  types.Type
	T   []string
	Loc *Loc     // pointer values that denote a location inside an object
	C   *big.Int // untyped integer constant (spec expressions only)
	B   *bool    // untyped bool constant
	Mem string   // slices only: memory class override (ghost streams live in their own, never written, memory)
}

const (
	locField = iota // field (or whole) of a heap struct / cell / global
	locElem         // element of a slice / array backing store
)

type Loc struct {
	Kind int
	S    string // heap key of the containing object type
	Pre  string // component prefix inside the object
	Ref  string // Int: object ref (locField) or allocation base (locElem)
	Idx  string // BV64 absolute index (locElem)
	Ty   types.Type
	ArrN int64 // >0: pointer to a whole array of ArrN elements starting at Idx
}

type typeInfo struct {
	comps []Comp
}

func (e *Engine) shortType(t types.Type) string {
	s := types.TypeString(t, func(p *types.Package) string { return e.pkgShort(p) })
	return s
}

func (e *Engine) pkgShort(p *types.Package) string {
	if p == nil {
		return ""
	}
	return p.Name()
}

func isTimeStruct(t types.Type) bool {
	// time.Time or a named type whose underlying type is time.Time's struct (datatype.Time)
	if n, ok := t.(*types.Named); ok {
		if n.Obj().Pkg() != nil && n.Obj().Pkg().Path() == "time" && n.Obj().Name() == "Time" {
			return true
		}
	}
	st, ok := t.Underlying().(*types.Struct)
	if !ok || st.NumFields() != 3 {
		return false
	}
	return st.Field(0).Name() == "wall" && st.Field(1).Name() == "ext" && st.Field(2).Name() == "loc"
}

// isOpaqueStruct: struct types declared outside the repository are not modelled field by field.
func (e *Engine) isOpaqueStruct(t types.Type) bool {
	if isTimeStruct(t) {
		return false
	}
	n, ok := t.(*types.Named)
	if !ok {
		return false
	}
	if _, ok := t.Underlying().(*types.Struct); !ok {
		return false
	}
	if n.Obj().Pkg() == nil {
		return false
	}
	return !e.isRepoPkg(n.Obj().Pkg().Path())
}

func (e *Engine) comps(t types.Type) []Comp {
	key := t.String()
	if ti, ok := e.tcache[key]; ok {
		return ti.comps
	}
	var out []Comp
	if isTimeStruct(t) {
		out = []Comp{{"", sBV(64), false}}
		e.tcache[key] = &typeInfo{out}
		return out
	}
	switch u := t.Underlying().(type) {
	case *types.Basic:
		switch {
		case u.Info()&types.IsBoolean != 0:
			out = []Comp{{"", sBool, false}}
		case u.Info()&types.IsInteger != 0:
			out = []Comp{{"", sBV(intWidth(u)), false}}
		case u.Kind() == types.Float32:
			out = []Comp{{"", sBV(32), false}}
		case u.Kind() == types.Float64, u.Kind() == types.UntypedFloat:
			out = []Comp{{"", sBV(64), false}}
		case u.Info()&types.IsString != 0:
			out = []Comp{{"", sInt, false}}
		case u.Kind() == types.UnsafePointer:
			out = []Comp{{"", sInt, false}}
		case u.Kind() == types.UntypedNil:
			out = []Comp{{"", sInt, false}}
		default:
			panic(unsupported("basic type " + u.String()))
		}
	case *types.Pointer, *types.Map, *types.Chan, *types.Signature:
		out = []Comp{{"", sInt, true}}
	case *types.Slice:
		out = []Comp{{"b", sInt, true}, {"o", sBV(64), false}, {"l", sBV(64), false}, {"c", sBV(64), false}}
	case *types.Interface:
		out = []Comp{{"t", sInt, false}, {"i", sInt, false}}
	case *types.Struct:
		if e.isOpaqueStruct(t) {
			out = nil
			break
		}
		for i := 0; i < u.NumFields(); i++ {
			for _, c := range e.comps(u.Field(i).Type()) {
				out = append(out, Comp{fmt.Sprintf("f%d_%s", i, c.Suf), c.Sort, c.Ref})
			}
		}
	case *types.Tuple:
		for i := 0; i < u.Len(); i++ {
			for _, c := range e.comps(u.At(i).Type()) {
				out = append(out, Comp{fmt.Sprintf("r%d_%s", i, c.Suf), c.Sort, c.Ref})
			}
		}
	case *types.Array:
		if u.Len() > 32 {
			panic(unsupported("array value longer than 32"))
		}
		for i := int64(0); i < u.Len(); i++ {
			for _, c := range e.comps(u.Elem()) {
				out = append(out, Comp{fmt.Sprintf("a%d_%s", i, c.Suf), c.Sort, c.Ref})
			}
		}
	default:
		panic(unsupported("type " + t.String()))
	}
	e.tcache[key] = &typeInfo{out}
	return out
}

func intWidth(b *types.Basic) int {
	switch b.Kind() {
	case types.Int8, types.Uint8:
		return 8
	case types.Int16, types.Uint16:
		return 16
	case types.Int32, types.Uint32:
		return 32
	default:
		return 64
	}
}

func isUnsigned(t types.Type) bool {
	b, ok := t.Underlying().(*types.Basic)
	return ok && b.Info()&types.IsUnsigned != 0
}

func isInteger(t types.Type) bool {
	if t == nil {
		return false
	}
	b, ok := t.Underlying().(*types.Basic)
	return ok && b.Info()&types.IsInteger != 0
}

func isBoolean(t types.Type) bool {
	if t == nil {
		return false
	}
	b, ok := t.Underlying().(*types.Basic)
	return ok && b.Info()&types.IsBoolean != 0
}

func isString(t types.Type) bool {
	if t == nil {
		return false
	}
	b, ok := t.Underlying().(*types.Basic)
	return ok && b.Info()&types.IsString != 0
}

func isFloat(t types.Type) bool {
	if t == nil {
		return false
	}
	b, ok := t.Underlying().(*types.Basic)
	return ok && b.Info()&types.IsFloat != 0
}

func isSlice(t types.Type) bool {
	if t == nil {
		return false
	}
	_, ok := t.Underlying().(*types.Slice)
	return ok
}

func isIface(t types.Type) bool {
	if t == nil {
		return false
	}
	_, ok := t.Underlying().(*types.Interface)
	return ok
}

func isPointer(t types.Type) bool {
	if t == nil {
		return false
	}
	_, ok := t.Underlying().(*types.Pointer)
	return ok
}

func isMap(t types.Type) bool {
	if t == nil {
		return false
	}
	_, ok := t.Underlying().(*types.Map)
	return ok
}

func isStruct(t types.Type) bool {
	if t == nil {
		return false
	}
	_, ok := t.Underlying().(*types.Struct)
	return ok && !isTimeStruct(t)
}

func elemOf(t types.Type) types.Type {
	switch u := t.Underlying().(type) {
	case *types.Slice:
		return u.Elem()
	case *types.Array:
		return u.Elem()
	case *types.Pointer:
		return u.Elem()
	case *types.Map:
		return u.Elem()
	case *types.Basic:
		if u.Info()&types.IsString != 0 {
			return types.Typ[types.Uint8]
		}
	}
	panic(unsupported("elemOf " + t.String()))
}

// structKey names the heap arrays of a struct type.
func (e *Engine) structKey(t types.Type) string {
	return e.shortType(t)
}

func (e *Engine) memKey(elem types.Type) string {
	// memory is keyed by the *underlying* representation class of the element
	if b, ok := elem.Underlying().(*types.Basic); ok && b.Info()&types.IsInteger != 0 {
		return fmt.Sprintf("M:bv%d", intWidth(b))
	}
	if isPointer(elem) {
		return "M:ref"
	}
	if isIface(elem) {
		return "M:iface"
	}
	if isString(elem) {
		return "M:string"
	}
	return "M:" + e.shortType(elem)
}

type unsupportedErr struct{ what string }

func (u unsupportedErr) Error() string { return "out of subset: " + u.what }

func unsupported(s string) unsupportedErr { return unsupportedErr{s} }

// fieldIndex finds a field by name in a struct type (direct fields, then embedded).
func fieldPath(t types.Type, name string) ([]int, types.Type, bool) {
	st, ok := t.Underlying().(*types.Struct)
	if !ok {
		return nil, nil, false
	}
	for i := 0; i < st.NumFields(); i++ {
		if st.Field(i).Name() == name {
			return []int{i}, st.Field(i).Type(), true
		}
	}
	for i := 0; i < st.NumFields(); i++ {
		f := st.Field(i)
		if f.Embedded() {
			ft := f.Type()
			if p, ok := ft.Underlying().(*types.Pointer); ok {
				_ = p
				continue // embedded pointers are not followed in specs
			}
			if path, ty, ok := fieldPath(ft, name); ok {
				return append([]int{i}, path...), ty, true
			}
		}
	}
	return nil, nil, false
}

func sanitize(s string) string {
	return strings.Map(func(r rune) rune {
		if r == '|' || r == '\\' {
			return '_'
		}
		return r
	}, s)
}
