package main

// Contract files: parser for the //@ comment language and for spec expressions.

import (
	"fmt"
	"math/big"
	"os"
	"regexp"
	"strings"
)

// ---------------------------------------------------------------------------
// AST of spec expressions

type Expr interface{}

type (
	EIdent struct{ Name string }
	ENum   struct{ Val *big.Int }
	EStr   struct{ S string }
	EBin   struct {
		Op   string
		L, R Expr
	}
	EUn struct {
		Op string
		X  Expr
	}
	ECall struct {
		Fun  Expr
		Args []Expr
	}
	EIndex struct{ X, I Expr }
	ESlice struct{ X, Lo, Hi Expr }
	ESel   struct {
		X    Expr
		Name string
	}
	ECond  struct{ C, A, B Expr }
	EQuant struct {
		Forall bool
		Vars   []QVar
		Body   Expr
		Pats   []Expr
	}
	ETypeAssert struct {
		X  Expr
		Ty string
	}
	ETypeLit struct{ Ty string } // type used as an argument (typeis(x, T))
)

type QVar struct {
	Name string
	Ty   string
}

// ---------------------------------------------------------------------------
// tokenizer

type tok struct {
	k string // id num str op eof
	s string
}

var ops3 = []string{"<==>", "==>", "||", "&&", "==", "!=", "<=", ">=", "<<", ">>", "&^", "::"}

func tokenize(s string) ([]tok, error) {
	var out []tok
	i := 0
	for i < len(s) {
		c := s[i]
		switch {
		case c == ' ' || c == '\t' || c == '\n' || c == '\r':
			i++
		case c == '/' && i+1 < len(s) && s[i+1] == '/':
			i = len(s) // trailing comment
		case isIdStart(c):
			j := i
			for j < len(s) && (isIdStart(s[j]) || (s[j] >= '0' && s[j] <= '9') || s[j] == '$') {
				j++
			}
			out = append(out, tok{"id", s[i:j]})
			i = j
		case c >= '0' && c <= '9':
			j := i
			for j < len(s) && (isIdStart(s[j]) || (s[j] >= '0' && s[j] <= '9')) {
				j++
			}
			out = append(out, tok{"num", s[i:j]})
			i = j
		case c == '"':
			j := i + 1
			for j < len(s) && s[j] != '"' {
				if s[j] == '\\' {
					j++
				}
				j++
			}
			if j >= len(s) {
				return nil, fmt.Errorf("unterminated string")
			}
			out = append(out, tok{"str", s[i+1 : j]})
			i = j + 1
		case c == '\'':
			// char literal
			j := i + 1
			for j < len(s) && s[j] != '\'' {
				j++
			}
			if j >= len(s) {
				return nil, fmt.Errorf("unterminated char")
			}
			body := s[i+1 : j]
			var v int
			if len(body) == 1 {
				v = int(body[0])
			} else if body == "\\t" {
				v = 9
			} else if body == "\\n" {
				v = 10
			} else {
				return nil, fmt.Errorf("bad char literal %q", body)
			}
			out = append(out, tok{"num", fmt.Sprint(v)})
			i = j + 1
		default:
			matched := false
			for _, o := range ops3 {
				if strings.HasPrefix(s[i:], o) {
					out = append(out, tok{"op", o})
					i += len(o)
					matched = true
					break
				}
			}
			if !matched {
				out = append(out, tok{"op", string(c)})
				i++
			}
		}
	}
	out = append(out, tok{"eof", ""})
	return out, nil
}

func isIdStart(c byte) bool {
	return c == '_' || (c >= 'a' && c <= 'z') || (c >= 'A' && c <= 'Z')
}

// ---------------------------------------------------------------------------
// Pratt parser

type parser struct {
	toks []tok
	p    int
}

func (p *parser) peek() tok { return p.toks[p.p] }
func (p *parser) next() tok { t := p.toks[p.p]; p.p++; return t }
func (p *parser) isOp(s string) bool {
	t := p.peek()
	return t.k == "op" && t.s == s
}
func (p *parser) expect(s string) {
	t := p.next()
	if t.k != "op" || t.s != s {
		panic(fmt.Sprintf("expected %q, got %q", s, t.s))
	}
}

func ParseExpr(s string) (e Expr, err error) {
	toks, err := tokenize(s)
	if err != nil {
		return nil, err
	}
	p := &parser{toks: toks}
	defer func() {
		if r := recover(); r != nil {
			err = fmt.Errorf("parse error in %q: %v", s, r)
		}
	}()
	e = p.parseTop()
	if p.peek().k != "eof" {
		panic(fmt.Sprintf("trailing token %q", p.peek().s))
	}
	return e, nil
}

func (p *parser) parseTop() Expr {
	t := p.peek()
	if t.k == "id" && (t.s == "forall" || t.s == "exists") {
		p.next()
		var vars []QVar
		for {
			n := p.next()
			if n.k != "id" {
				panic("quantifier variable expected")
			}
			ty := p.parseType()
			vars = append(vars, QVar{n.s, ty})
			if p.isOp(",") {
				p.next()
				continue
			}
			break
		}
		var pats []Expr
		if p.isOp("{") {
			p.next()
			for !p.isOp("}") {
				pats = append(pats, p.parseCond())
				if p.isOp(",") {
					p.next()
				}
			}
			p.expect("}")
		}
		p.expect("::")
		body := p.parseTop()
		return &EQuant{t.s == "forall", vars, body, pats}
	}
	return p.parseIff()
}

func (p *parser) parseType() string {
	s := ""
	for p.isOp("*") || p.isOp("[") {
		if p.isOp("*") {
			p.next()
			s += "*"
		} else {
			p.next()
			p.expect("]")
			s += "[]"
		}
	}
	n := p.next()
	if n.k != "id" {
		panic("type name expected, got " + n.s)
	}
	s += n.s
	if p.isOp(".") {
		p.next()
		m := p.next()
		s += "." + m.s
	}
	return s
}

func (p *parser) parseIff() Expr {
	l := p.parseImp()
	for p.isOp("<==>") {
		p.next()
		r := p.parseImp()
		l = &EBin{"<==>", l, r}
	}
	return l
}

func (p *parser) parseImp() Expr {
	l := p.parseCond()
	if p.isOp("==>") {
		p.next()
		// right associative; allow a quantifier on the right
		var r Expr
		if t := p.peek(); t.k == "id" && (t.s == "forall" || t.s == "exists") {
			r = p.parseTop()
		} else {
			r = p.parseImp()
		}
		return &EBin{"==>", l, r}
	}
	return l
}

func (p *parser) parseCond() Expr {
	c := p.parseBin(0)
	if p.isOp("?") {
		p.next()
		a := p.parseCond()
		p.expect(":")
		b := p.parseCond()
		return &ECond{c, a, b}
	}
	return c
}

var binPrec = map[string]int{
	"||": 1, "&&": 2,
	"==": 3, "!=": 3, "<": 3, "<=": 3, ">": 3, ">=": 3,
	"+": 4, "-": 4, "|": 4, "^": 4,
	"*": 5, "/": 5, "%": 5, "<<": 5, ">>": 5, "&": 5, "&^": 5,
}

func (p *parser) parseBin(min int) Expr {
	l := p.parseUnary()
	for {
		t := p.peek()
		if t.k != "op" {
			return l
		}
		pr, ok := binPrec[t.s]
		if !ok || pr <= min {
			return l
		}
		p.next()
		r := p.parseBin(pr)
		l = &EBin{t.s, l, r}
	}
}

func (p *parser) parseUnary() Expr {
	t := p.peek()
	if t.k == "id" && (t.s == "forall" || t.s == "exists") {
		return p.parseTop() // a quantifier extends as far to the right as possible
	}
	if t.k == "op" && (t.s == "!" || t.s == "-" || t.s == "^" || t.s == "&") {
		p.next()
		x := p.parseUnary()
		return &EUn{t.s, x}
	}
	return p.parsePostfix()
}

func (p *parser) parsePostfix() Expr {
	var x Expr
	t := p.next()
	switch {
	case t.k == "num":
		v := new(big.Int)
		s := strings.ReplaceAll(t.s, "_", "")
		if _, ok := v.SetString(s, 0); !ok {
			panic("bad number " + t.s)
		}
		x = &ENum{v}
	case t.k == "str":
		x = &EStr{t.s}
	case t.k == "id":
		x = &EIdent{t.s}
	case t.k == "op" && t.s == "(":
		x = p.parseTop()
		p.expect(")")
	case t.k == "op" && t.s == "*":
		// pointer type literal in argument position, e.g. typeis(x, *Time)
		p.p--
		return &ETypeLit{p.parseType()}
	default:
		panic("unexpected token " + t.s)
	}
	for {
		switch {
		case p.isOp("("):
			p.next()
			var args []Expr
			for !p.isOp(")") {
				args = append(args, p.parseTop())
				if p.isOp(",") {
					p.next()
				}
			}
			p.expect(")")
			x = &ECall{x, args}
		case p.isOp("["):
			p.next()
			var lo, hi Expr
			if !p.isOp(":") {
				lo = p.parseTop()
			}
			if p.isOp(":") {
				p.next()
				if !p.isOp("]") {
					hi = p.parseTop()
				}
				p.expect("]")
				x = &ESlice{x, lo, hi}
			} else {
				p.expect("]")
				x = &EIndex{x, lo}
			}
		case p.isOp("."):
			p.next()
			if p.isOp("(") {
				p.next()
				ty := p.parseType()
				p.expect(")")
				x = &ETypeAssert{x, ty}
			} else if p.isOp("*") {
				p.next()
				x = &ESel{x, "*"}
			} else {
				n := p.next()
				if n.k != "id" {
					panic("selector expected")
				}
				x = &ESel{x, n.s}
			}
		default:
			return x
		}
	}
}

// ---------------------------------------------------------------------------
// Contract structures

type Clause struct {
	Label string
	Props []string
	Text  string
	E     Expr
	File  string
	Line  int
}

type LoopSpec struct {
	Ordinal    int
	Hints      []*Clause
	Invariants []*Clause
	Decreases  *Clause
	Modifies   []string // optional explicit loop frame targets
	EachRound  []EachRound // in every round of the loop some call to Callee satisfies Cond
}

type EachRound struct {
	Callee string
	Cond   *Clause
}

type Contract struct {
	Kind       string // func | iface | functype
	Name       string // canonical name
	Pkg        string // package name of the file it was read from ("" for trusted)
	Params     []string
	Results    []string
	Props      []string
	Requires   []*Clause
	Ensures    []*Clause
	Modifies   []string
	HasMod     bool
	Pure       bool
	Trusted    bool
	NoSafety   bool // do not generate run-time panic obligations (used for sweeps that are not claimed)
	MayPanic   bool
	NonBlocking bool // the function's own channel operations never wait: every send / receive is a case of a select with a default
	UnsafeReads string   // reason: unsafe.Pointer conversions in this function are only read through
	Recovers   bool      // a deferred function of this function recovers panics of its callees (checked at every call that may panic)
	OnPanic    []*Clause // what holds when a callee panicked and the deferred functions have run
	Impl       []string // functype / iface contracts this function must also satisfy
	Loops      map[int]*LoopSpec
	Ghost      []string
	File       string
	Line       int
	Assumes    []*Clause // assumptions local to this function's verification (listed in evidence)
	Reveal     []string
	AllocBound *Clause
	SplitDims  [][]*Clause // one entry per split line: alternatives of that dimension
	Splits     []*Clause   // case split (over the entry state) tried when an obligation is not decided directly
	Checks     []*Clause   // facts that must follow from the preconditions (proved at entry)
	Hints      []*Clause   // trigger facts assumed at entry
	PostHints  []*Clause   // trigger facts assumed at each return
	Replay     map[string]string
	ThoroughOnly bool // "tier thorough": the function's obligations are generated in the thorough tier only
	AbsIdx    bool // quantify over absolute indices (change of variable) in this function's verification
	SliceWF   bool // assume the type invariant of slice headers that spec expressions read from the heap
	AtCall    map[string][]*Clause // conditions that must hold whenever this function calls the named callee
	AssumePre map[string]string    // "Callee" or "Callee.label" -> reason: that precondition is assumed (not checked) at this function's calls
	GhostSets [][2]string // ghost assignments executed at every return: target ghost application, value expression
}

type SpecFun struct {
	Name   string
	Params []QVar
	Ret    string
	Body   Expr // nil => uninterpreted
	Text   string
	Reads  []string // hfun: struct types / memory classes whose heap arrays are implicit arguments
	Axioms []*Clause
	Manual map[string]*Clause // hlemma: instantiated only on request, as fname.label(args...)
	Pkg    string             // package the definition was written in (names resolve there)
}

type GhostFun struct {
	Name string
	Arg  string // type of the object it is attached to
	Ret  string
	Mem  string // "ghost T in CLASS": elements of the (slice) result live in memory class CLASS
	InitFalse bool // "... initfalse": false for every newly allocated object
	InitZero  bool // "... initzero": 0 for every newly allocated object (integer ghosts)
	Stable bool // "... stable": not havocked by calls to unknown code (assumption: unknown code leaves it as it found it)
}

type Lemma struct {
	Clause
	IsAxiom bool
}

type Specs struct {
	Contracts map[string]*Contract
	Funs      map[string]*SpecFun
	Ghosts    map[string]*GhostFun
	Lemmas    []*Lemma
	Order     []string // contract names in file order
}

func NewSpecs() *Specs {
	return &Specs{Contracts: map[string]*Contract{}, Funs: map[string]*SpecFun{}, Ghosts: map[string]*GhostFun{}}
}

var keywordRe = regexp.MustCompile(`^(func|iface|functype|spec|ufun|hfun|haxiom|hlemma|axiom|lemma|ghost|property|trusted|pure|implements|requires|ensures|modifies|loop|invariant|decreases|end|may_panic|nosafety|assume|alloc|hint|posthint|replay|check|split|ghostset|atcall|assumepre|slicewf|recovers|onpanic|unsafe_reads|absidx|tier|eachround|nonblocking)\b`)
var labelRe = regexp.MustCompile(`^([A-Za-z_][A-Za-z0-9_.]*)\s*:([^:]|$)`)
var propTagRe = regexp.MustCompile(`^\[([A-Za-z0-9 ,]+)\]\s*`)
var headRe = regexp.MustCompile(`^(\S.*?)\(([^)]*)\)\s*(?:\(([^)]*)\))?\s*$`)

// canonical name of a function header as written in package pkg.
func canonName(pkg, head string) string {
	head = strings.TrimSpace(head)
	if pkg == "" {
		return head
	}
	if strings.HasPrefix(head, "(") {
		// (*T).M or (T).M
		i := strings.Index(head, ")")
		recv := head[1:i]
		rest := head[i+1:]
		if strings.Contains(recv, ".") {
			return head
		}
		if strings.HasPrefix(recv, "*") {
			return "(*" + pkg + "." + recv[1:] + ")" + rest
		}
		return "(" + pkg + "." + recv + ")" + rest
	}
	if strings.Contains(strings.SplitN(head, "$", 2)[0], ".") {
		return head
	}
	return pkg + "." + head
}

func splitNames(s string) []string {
	var out []string
	for _, f := range strings.Split(s, ",") {
		f = strings.TrimSpace(f)
		if f != "" {
			out = append(out, f)
		}
	}
	return out
}

// ParseSpecFile reads one contract file. pkg is the Go package name for
// files that live in /repo ("" for /verif/contracts/*.spec).
func (sp *Specs) ParseSpecFile(path string, pkg string) error {
	data, err := os.ReadFile(path)
	if err != nil {
		return err
	}
	type line struct {
		n int
		s string
	}
	var lines []line
	for i, l := range strings.Split(string(data), "\n") {
		t := strings.TrimSpace(l)
		if !strings.HasPrefix(t, "//@") {
			if pkg != "" && strings.HasPrefix(t, "package ") {
				// take the package name from the file itself
				pkg = strings.TrimSpace(strings.TrimPrefix(t, "package "))
			}
			continue
		}
		t = strings.TrimSpace(t[3:])
		if t == "" || strings.HasPrefix(t, "#") {
			continue
		}
		// strip trailing // comments
		if j := strings.Index(t, " // "); j >= 0 {
			t = strings.TrimSpace(t[:j])
		}
		if keywordRe.MatchString(t) || len(lines) == 0 {
			lines = append(lines, line{i + 1, t})
		} else {
			lines[len(lines)-1].s += " " + t
		}
	}
	var cur *Contract
	var curLoop *LoopSpec
	mkClause := func(l line, body string) (*Clause, error) {
		c := &Clause{File: path, Line: l.n}
		if m := propTagRe.FindStringSubmatch(body); m != nil {
			c.Props = strings.Fields(strings.ReplaceAll(m[1], ",", " "))
			body = body[len(m[0]):]
		}
		if m := labelRe.FindStringSubmatch(body); m != nil && m[1] != "forall" && m[1] != "exists" {
			c.Label = m[1]
			body = strings.TrimSpace(body[len(m[1]):])
			body = strings.TrimSpace(strings.TrimPrefix(body, ":"))
		}
		c.Text = body
		e, err := ParseExpr(body)
		if err != nil {
			return nil, fmt.Errorf("%s:%d: %v", path, l.n, err)
		}
		c.E = e
		return c, nil
	}
	for _, l := range lines {
		kw := keywordRe.FindString(l.s)
		rest := strings.TrimSpace(l.s[len(kw):])
		switch kw {
		case "func", "iface", "functype":
			if cur != nil {
				return fmt.Errorf("%s:%d: nested %s (missing end?)", path, l.n, kw)
			}
			m := headRe.FindStringSubmatch(rest)
			if m == nil {
				return fmt.Errorf("%s:%d: bad header %q", path, l.n, rest)
			}
			name := m[1]
			if kw == "func" {
				name = canonName(pkg, name)
			} else if pkg != "" && !strings.Contains(strings.SplitN(name, ".", 2)[0], "/") && strings.Count(name, ".") < map[string]int{"iface": 2, "functype": 1}[kw] {
				name = pkg + "." + name
			}
			cur = &Contract{Kind: kw, Name: name, Pkg: pkg, Params: splitNames(m[2]), Results: splitNames(m[3]),
				Loops: map[int]*LoopSpec{}, File: path, Line: l.n}
			key := name
			if kw != "func" {
				key = kw + ":" + name
			}
			if _, dup := sp.Contracts[key]; dup {
				return fmt.Errorf("%s:%d: duplicate contract for %s", path, l.n, key)
			}
			sp.Contracts[key] = cur
			sp.Order = append(sp.Order, key)
		case "end":
			if curLoop != nil {
				curLoop = nil
			} else if cur != nil {
				cur = nil
			} else {
				return fmt.Errorf("%s:%d: stray end", path, l.n)
			}
		case "property":
			if cur == nil {
				return fmt.Errorf("%s:%d: property outside contract", path, l.n)
			}
			cur.Props = append(cur.Props, strings.Fields(rest)...)
		case "absidx":
			cur.AbsIdx = true
		case "slicewf":
			cur.SliceWF = true
		case "tier":
			cur.ThoroughOnly = strings.TrimSpace(rest) == "thorough"
		case "trusted":
			cur.Trusted = true
		case "pure":
			cur.Pure = true
			cur.HasMod = true
		case "may_panic":
			cur.MayPanic = true
		case "nonblocking":
			cur.NonBlocking = true
		case "unsafe_reads":
			cur.UnsafeReads = strings.TrimSpace(strings.TrimPrefix(strings.TrimSpace(rest), ":"))
			if cur.UnsafeReads == "" {
				return fmt.Errorf("%s:%d: unsafe_reads needs a reason", path, l.n)
			}
		case "recovers":
			cur.Recovers = true
		case "onpanic":
			c, err := mkClause(l, rest)
			if err != nil {
				return err
			}
			if c.Label == "" {
				c.Label = fmt.Sprintf("p%d", len(cur.OnPanic))
			}
			cur.OnPanic = append(cur.OnPanic, c)
		case "nosafety":
			cur.NoSafety = true
		case "implements":
			cur.Impl = append(cur.Impl, strings.Fields(rest)...)
		case "split":
			var dim []*Clause
			for _, part := range splitTop(rest) {
				c, err := mkClause(l, part)
				if err != nil {
					return err
				}
				cur.Splits = append(cur.Splits, c)
				dim = append(dim, c)
			}
			cur.SplitDims = append(cur.SplitDims, dim)
		case "check":
			c, err := mkClause(l, rest)
			if err != nil {
				return err
			}
			if c.Label == "" {
				c.Label = fmt.Sprintf("c%d", len(cur.Checks))
			}
			cur.Checks = append(cur.Checks, c)
		case "requires", "ensures", "assume":
			if cur == nil {
				return fmt.Errorf("%s:%d: %s outside contract", path, l.n, kw)
			}
			c, err := mkClause(l, rest)
			if err != nil {
				return err
			}
			switch kw {
			case "requires":
				if c.Label == "" {
					c.Label = fmt.Sprintf("r%d", len(cur.Requires))
				}
				cur.Requires = append(cur.Requires, c)
			case "ensures":
				if c.Label == "" {
					c.Label = fmt.Sprintf("e%d", len(cur.Ensures))
				}
				cur.Ensures = append(cur.Ensures, c)
			case "assume":
				if c.Label == "" {
					c.Label = fmt.Sprintf("a%d", len(cur.Assumes))
				}
				cur.Assumes = append(cur.Assumes, c)
			}
		case "hint", "posthint":
			c, err := mkClause(l, rest)
			if err != nil {
				return err
			}
			if curLoop != nil {
				curLoop.Hints = append(curLoop.Hints, c)
			} else if kw == "hint" {
				cur.Hints = append(cur.Hints, c)
			} else {
				cur.PostHints = append(cur.PostHints, c)
			}
		case "atcall":
			// atcall Callee: [props] label: expr     (checked in the state right before every call to Callee)
			k := strings.Index(rest, ":")
			callee := strings.TrimSpace(rest[:k])
			c, err := mkClause(l, strings.TrimSpace(rest[k+1:]))
			if err != nil {
				return err
			}
			if cur.AtCall == nil {
				cur.AtCall = map[string][]*Clause{}
			}
			if c.Label == "" {
				c.Label = fmt.Sprintf("at%d", len(cur.AtCall[callee]))
			}
			cur.AtCall[callee] = append(cur.AtCall[callee], c)
		case "assumepre":
			// assumepre Callee[.label]: reason   (a precondition of Callee is assumed, and reported as an assumption, at
			// every call this function makes to it)
			k := strings.Index(rest, ":")
			if k < 0 {
				return fmt.Errorf("%s:%d: assumepre needs 'Callee[.label]: reason'", path, l.n)
			}
			if cur.AssumePre == nil {
				cur.AssumePre = map[string]string{}
			}
			cur.AssumePre[strings.TrimSpace(rest[:k])] = strings.TrimSpace(rest[k+1:])
		case "ghostset":
			// ghostset g(x) = expr      (ghost state only; executed at every return, before the postconditions)
			k := strings.Index(rest, " = ")
			if k < 0 {
				return fmt.Errorf("%s:%d: ghostset needs ' = '", path, l.n)
			}
			cur.GhostSets = append(cur.GhostSets, [2]string{strings.TrimSpace(rest[:k]), strings.TrimSpace(rest[k+3:])})
		case "replay":
			// replay label: <Go boolean expression over a0.. r0..>
			i := strings.Index(rest, ":")
			if cur.Replay == nil {
				cur.Replay = map[string]string{}
			}
			cur.Replay[strings.TrimSpace(rest[:i])] = strings.TrimSpace(rest[i+1:])
		case "alloc":
			c, err := mkClause(l, rest)
			if err != nil {
				return err
			}
			cur.AllocBound = c
		case "modifies":
			if curLoop != nil {
				curLoop.Modifies = append(curLoop.Modifies, splitTop(rest)...)
			} else {
				cur.HasMod = true
				cur.Modifies = append(cur.Modifies, splitTop(rest)...)
			}
		case "loop":
			var k int
			fmt.Sscanf(rest, "%d", &k)
			curLoop = &LoopSpec{Ordinal: k}
			cur.Loops[k] = curLoop
		case "invariant":
			if curLoop == nil {
				return fmt.Errorf("%s:%d: invariant outside loop", path, l.n)
			}
			c, err := mkClause(l, rest)
			if err != nil {
				return err
			}
			if c.Label == "" {
				c.Label = fmt.Sprintf("i%d", len(curLoop.Invariants))
			}
			curLoop.Invariants = append(curLoop.Invariants, c)
		case "eachround":
			// eachround Callee: [props] label: cond   (inside a loop block): every round of the loop that comes back to the
			// loop head has made at least one call to Callee for which cond held (ARGn / FN as in atcall)
			if curLoop == nil {
				return fmt.Errorf("%s:%d: eachround outside loop", path, l.n)
			}
			k := strings.Index(rest, ":")
			if k < 0 {
				return fmt.Errorf("%s:%d: eachround needs 'Callee: [props] label: cond'", path, l.n)
			}
			c, err := mkClause(l, strings.TrimSpace(rest[k+1:]))
			if err != nil {
				return err
			}
			if c.Label == "" {
				c.Label = fmt.Sprintf("round%d", len(curLoop.EachRound))
			}
			curLoop.EachRound = append(curLoop.EachRound, EachRound{Callee: strings.TrimSpace(rest[:k]), Cond: c})
		case "decreases":
			c, err := mkClause(l, rest)
			if err != nil {
				return err
			}
			if curLoop != nil {
				curLoop.Decreases = c
			}
		case "haxiom", "hlemma":
			// haxiom fname: label: expr
			i := strings.Index(rest, ":")
			fn := strings.TrimSpace(rest[:i])
			c, err := mkClause(l, strings.TrimSpace(rest[i+1:]))
			if err != nil {
				return err
			}
			f := sp.Funs[fn]
			if f == nil {
				return fmt.Errorf("%s:%d: haxiom for unknown hfun %s", path, l.n, fn)
			}
			if kw == "hlemma" {
				if f.Manual == nil {
					f.Manual = map[string]*Clause{}
				}
				f.Manual[c.Label] = c
			} else {
				f.Axioms = append(f.Axioms, c)
			}
		case "spec", "ufun", "hfun":
			// spec name(p T, q T) T = expr      |  ufun name(p T, q T) T
			i := strings.Index(rest, "(")
			j := matchParen(rest, i)
			if i < 0 || j < 0 {
				return fmt.Errorf("%s:%d: bad spec header", path, l.n)
			}
			f := &SpecFun{Name: strings.TrimSpace(rest[:i]), Pkg: pkg}
			for _, ps := range splitTop(rest[i+1 : j]) {
				fs := strings.Fields(ps)
				if len(fs) != 2 {
					return fmt.Errorf("%s:%d: bad spec parameter %q", path, l.n, ps)
				}
				f.Params = append(f.Params, QVar{fs[0], fs[1]})
			}
			tail := strings.TrimSpace(rest[j+1:])
			if kw == "spec" {
				k := strings.Index(tail, "=")
				if k < 0 {
					return fmt.Errorf("%s:%d: spec without body", path, l.n)
				}
				f.Ret = strings.TrimSpace(tail[:k])
				f.Text = strings.TrimSpace(tail[k+1:])
				e, err := ParseExpr(f.Text)
				if err != nil {
					return fmt.Errorf("%s:%d: %v", path, l.n, err)
				}
				f.Body = e
			} else if kw == "hfun" {
				k := strings.Index(tail, " reads ")
				if k < 0 {
					return fmt.Errorf("%s:%d: hfun without reads", path, l.n)
				}
				f.Ret = strings.TrimSpace(tail[:k])
				f.Reads = splitTop(tail[k+7:])
			} else {
				f.Ret = tail
			}
			if _, dup := sp.Funs[f.Name]; dup {
				return fmt.Errorf("%s:%d: duplicate spec function %s", path, l.n, f.Name)
			}
			sp.Funs[f.Name] = f
		case "ghost":
			// ghost name(T) R
			i := strings.Index(rest, "(")
			j := matchParen(rest, i)
			g := &GhostFun{Name: strings.TrimSpace(rest[:i]), Arg: strings.TrimSpace(rest[i+1 : j]), Ret: strings.TrimSpace(rest[j+1:])}
			if strings.HasSuffix(g.Ret, " initzero") {
				g.InitZero = true
				g.Ret = strings.TrimSpace(strings.TrimSuffix(g.Ret, " initzero"))
			}
			if strings.HasSuffix(g.Ret, " initfalse") {
				g.InitFalse = true
				g.Ret = strings.TrimSpace(strings.TrimSuffix(g.Ret, " initfalse"))
			}
			if strings.HasSuffix(g.Ret, " stable") {
				g.Stable = true
				g.Ret = strings.TrimSpace(strings.TrimSuffix(g.Ret, " stable"))
			}
			if k := strings.Index(g.Ret, " in "); k > 0 {
				g.Mem = strings.TrimSpace(g.Ret[k+4:])
				g.Ret = strings.TrimSpace(g.Ret[:k])
			}
			sp.Ghosts[g.Name] = g
		case "axiom", "lemma":
			c, err := mkClause(l, rest)
			if err != nil {
				return err
			}
			sp.Lemmas = append(sp.Lemmas, &Lemma{*c, kw == "axiom"})
		default:
			return fmt.Errorf("%s:%d: cannot parse %q", path, l.n, l.s)
		}
	}
	if cur != nil {
		return fmt.Errorf("%s: contract %s not closed", path, cur.Name)
	}
	return nil
}

func matchParen(s string, i int) int {
	if i < 0 {
		return -1
	}
	d := 0
	for j := i; j < len(s); j++ {
		if s[j] == '(' {
			d++
		} else if s[j] == ')' {
			d--
			if d == 0 {
				return j
			}
		}
	}
	return -1
}

// splitTop splits on commas not nested in brackets.
func splitTop(s string) []string {
	var out []string
	d := 0
	start := 0
	for i := 0; i < len(s); i++ {
		switch s[i] {
		case '(', '[':
			d++
		case ')', ']':
			d--
		case ',':
			if d == 0 {
				out = append(out, strings.TrimSpace(s[start:i]))
				start = i + 1
			}
		}
	}
	if t := strings.TrimSpace(s[start:]); t != "" {
		out = append(out, t)
	}
	return out
}
