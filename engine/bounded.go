package main

// Bounded stand-ins: functions that cannot be brought within the verifier's reach (string / net parsing) are checked
// over an enumerated input list by a generated in-package test injected with -overlay. The result is reported as an
// obligation of kind "table" whose back end is "bounded enumeration": it is labelled bounded and never counted as proved.

import (
	"encoding/json"
	"fmt"
	"os"
	"os/exec"
	"path/filepath"
	"strings"
	"time"
)

func (e *Engine) runOverlayTest(pkgRel, src, testName string) string {
	dir, err := os.MkdirTemp("", "govc-bounded-")
	if err != nil {
		return "BOUNDED-ERROR " + err.Error()
	}
	defer os.RemoveAll(dir)
	f := filepath.Join(dir, "zz_verif_bounded_test.go")
	os.WriteFile(f, []byte(src), 0o644)
	target := filepath.Join(e.repo, pkgRel, "zz_verif_bounded_test.go")
	ov, _ := json.Marshal(map[string]interface{}{"Replace": map[string]string{target: f}})
	ovf := filepath.Join(dir, "ov.json")
	os.WriteFile(ovf, ov, 0o644)
	cmd := exec.Command("go", "test", "-tags", "verif", "-overlay", ovf, "-vet=off", "-v", "-count=1", "-timeout", "60s", "-run", "^"+testName+"$", "./"+pkgRel)
	cmd.Dir = e.repo
	cmd.Env = append(os.Environ(), "GOFLAGS=-mod=mod", "GOPROXY=off", "GOSUMDB=off", "GOTOOLCHAIN=local")
	done := make(chan struct{})
	var out []byte
	go func() { out, _ = cmd.CombinedOutput(); close(done) }()
	select {
	case <-done:
	case <-time.After(120 * time.Second):
		cmd.Process.Kill()
		<-done
	}
	return string(out)
}

const localAddrTest = `package sm

import (
	"context"
	"crypto/tls"
	"fmt"
	"net"
	"testing"

	"github.com/fiorix/go-diameter/v4/diam/dict"
)

type verifAddrConn struct{ local net.Addr }

func (f *verifAddrConn) Write(b []byte) (int, error)               { return len(b), nil }
func (f *verifAddrConn) WriteStream(b []byte, s uint) (int, error) { return len(b), nil }
func (f *verifAddrConn) Close()                                    {}
func (f *verifAddrConn) LocalAddr() net.Addr                       { return f.local }
func (f *verifAddrConn) RemoteAddr() net.Addr                      { return nil }
func (f *verifAddrConn) TLS() *tls.ConnectionState                 { return nil }
func (f *verifAddrConn) Dictionary() *dict.Parser                  { return dict.Default }
func (f *verifAddrConn) Context() context.Context                  { return context.Background() }
func (f *verifAddrConn) SetContext(ctx context.Context)            {}
func (f *verifAddrConn) Connection() net.Conn                      { return nil }

type verifStrAddr string

func (a verifStrAddr) Network() string { return "sctp" }
func (a verifStrAddr) String() string  { return string(a) }

func TestVerifBoundedLocalAddresses(t *testing.T) {
	var addrs []net.Addr
	ips := []string{"192.0.2.1", "10.0.0.7", "127.0.0.1", "2001:db8::1", "::1", "fe80::1", "::ffff:192.0.2.9", "2001:db8:0:0:1:2:3:4"}
	for _, ip := range ips {
		for _, port := range []int{1, 3868, 65535} {
			addrs = append(addrs, &net.TCPAddr{IP: net.ParseIP(ip), Port: port})
		}
	}
	addrs = append(addrs, &net.TCPAddr{IP: net.ParseIP("fe80::1"), Port: 3868, Zone: "eth0"})
	// multi-homed SCTP endpoints print as a/b:port
	addrs = append(addrs, verifStrAddr("192.0.2.1/192.0.2.2:3868"), verifStrAddr("[2001:db8::1]/[2001:db8::2]:3868"), verifStrAddr("127.0.0.1/192.0.2.2:3868"))
	n := 0
	for _, a := range addrs {
		got, err := getLocalAddresses(&verifAddrConn{a})
		n++
		if err == nil && len(got) == 0 {
			fmt.Printf("BOUNDED-FAIL %s: no address and no error\n", a.String())
		}
		if err != nil {
			fmt.Printf("BOUNDED-FAIL %s: %v\n", a.String(), err)
		}
	}
	fmt.Printf("BOUNDED-CASES %d\n", n)
}
`

const depthTest = `package diam

import (
	"fmt"
	"testing"

	"github.com/fiorix/go-diameter/v4/diam/dict"
)

func verifNested(depth int) []byte {
	b := make([]byte, 0, 8*depth)
	for i := 0; i < depth; i++ {
		l := 8 * (depth - i)
		b = append(b, 0, 0, 1, 4, 0x40, byte(l>>16), byte(l>>8), byte(l))
	}
	return b
}

// Grouped AVPs nested to every depth a 24-bit message length allows must decode (or be rejected) without killing
// the process. A stack overflow is a fatal error: the test binary dies and the depths after it are never reported.
func TestVerifBoundedNestingDepth(t *testing.T) {
	for _, d := range []int{1, 2, 16, 1000, 100000, 500000, 2097150} {
		_, err := DecodeAVP(verifNested(d), 0, dict.Default)
		fmt.Printf("BOUNDED-DEPTH %d survived err=%v\n", d, err != nil)
	}
}
`

var depthCases = []string{"1", "2", "16", "1000", "100000", "500000", "2097150"}


const unmarshalTest = `package smparser

import (
	"bytes"
	"fmt"
	"testing"

	"github.com/fiorix/go-diameter/v4/diam"
	"github.com/fiorix/go-diameter/v4/diam/avp"
	"github.com/fiorix/go-diameter/v4/diam/datatype"
	"github.com/fiorix/go-diameter/v4/diam/dict"
)

func verifListOK(l []*diam.AVP) bool {
	for _, a := range l {
		if a == nil {
			return false
		}
	}
	return true
}
func verifGroupsOK(l []*diam.AVP) bool {
	for _, g := range l {
		if g == nil {
			return false
		}
		if ga, ok := g.Data.(*diam.GroupedAVP); ok && (ga == nil || !verifListOK(ga.AVP)) {
			return false
		}
	}
	return true
}

// The ASSUMED contract of Message.Unmarshal for the state machine's structs (contracts_verif.go of smparser), checked on
// the real reflection code over a bounded family of messages: every presence combination of the identity, state and
// security AVPs x up to two Acct / Auth application ids x Vendor-Specific groups of several shapes, in several orders,
// built through the API and also after a wire round trip.
func TestVerifBoundedUnmarshal(t *testing.T) {
	cases, fails := 0, 0
	fail := func(f string, a ...interface{}) { fails++; fmt.Println("BOUNDED-FAIL " + fmt.Sprintf(f, a...)) }
	apps := [][]uint32{{}, {4}, {4, 999999}, {0xffffffff}}
	groups := []int{0, 1, 2, 3, 4} // none, {vendor, auth}, {auth, vendor}, {vendor} only, empty group
	for mask := 0; mask < 16; mask++ {
		for _, acct := range apps {
			for _, auth := range apps {
				for _, gk := range groups {
					for order := 0; order < 2; order++ {
						m := diam.NewRequest(diam.CapabilitiesExchange, 0, dict.Default)
						var tail []func()
						if mask&1 != 0 {
							m.NewAVP(avp.OriginHost, avp.Mbit, 0, datatype.DiameterIdentity("h"))
						}
						if mask&2 != 0 {
							m.NewAVP(avp.OriginRealm, avp.Mbit, 0, datatype.DiameterIdentity("r"))
						}
						if mask&4 != 0 {
							m.NewAVP(avp.OriginStateID, avp.Mbit, 0, datatype.Unsigned32(7))
						}
						if mask&8 != 0 {
							m.NewAVP(avp.InbandSecurityID, avp.Mbit, 0, datatype.Unsigned32(uint32(mask)%2))
						}
						addApps := func() {
							for _, id := range acct {
								m.NewAVP(avp.AcctApplicationID, avp.Mbit, 0, datatype.Unsigned32(id))
							}
							for _, id := range auth {
								m.NewAVP(avp.AuthApplicationID, avp.Mbit, 0, datatype.Unsigned32(id))
							}
						}
						addGroup := func() {
							var g *diam.GroupedAVP
							switch gk {
							case 0:
								return
							case 1:
								g = &diam.GroupedAVP{AVP: []*diam.AVP{diam.NewAVP(avp.VendorID, avp.Mbit, 0, datatype.Unsigned32(10415)), diam.NewAVP(avp.AuthApplicationID, avp.Mbit, 0, datatype.Unsigned32(4))}}
							case 2:
								g = &diam.GroupedAVP{AVP: []*diam.AVP{diam.NewAVP(avp.AuthApplicationID, avp.Mbit, 0, datatype.Unsigned32(4)), diam.NewAVP(avp.VendorID, avp.Mbit, 0, datatype.Unsigned32(10415))}}
							case 3:
								g = &diam.GroupedAVP{AVP: []*diam.AVP{diam.NewAVP(avp.VendorID, avp.Mbit, 0, datatype.Unsigned32(10415))}}
							case 4:
								g = &diam.GroupedAVP{}
							}
							m.NewAVP(avp.VendorSpecificApplicationID, avp.Mbit, 0, g)
						}
						if order == 0 {
							tail = []func(){addApps, addGroup}
						} else {
							tail = []func(){addGroup, addApps}
						}
						for _, f := range tail {
							f()
						}
						msgs := []*diam.Message{m}
						if wire, err := m.Serialize(); err == nil {
							if m2, err := diam.ReadMessage(bytes.NewReader(wire), dict.Default); err == nil {
								msgs = append(msgs, m2)
							} else {
								fail("wire round trip of a generated CER failed: %v", err)
							}
						}
						for k, mm := range msgs {
							cases++
							cer := new(CER)
							err := mm.Unmarshal(cer)
							if cer.OriginStateID != nil && (cer.OriginStateID.Data == nil) {
								fail("mask=%d k=%d: Origin-State-Id AVP without data", mask, k)
							}
							if err != nil {
								continue
							}
							if !verifListOK(cer.AcctApplicationID) || !verifListOK(cer.AuthApplicationID) || !verifGroupsOK(cer.VendorSpecificApplicationID) {
								fail("mask=%d k=%d: nil AVP in a list Unmarshal filled", mask, k)
							}
							if cer.InbandSecurityID != nil {
								if _, ok := cer.InbandSecurityID.Data.(datatype.Unsigned32); !ok {
									fail("mask=%d k=%d: Inband-Security-Id is %T", mask, k, cer.InbandSecurityID.Data)
								}
							}
							// each tagged field holds the AVPs of that code, in message order
							if len(cer.AcctApplicationID) != len(acct) || len(cer.AuthApplicationID) != len(auth) {
								fail("mask=%d k=%d: %d acct / %d auth ids unmarshalled, %d / %d sent", mask, k, len(cer.AcctApplicationID), len(cer.AuthApplicationID), len(acct), len(auth))
							}
							for i, a := range cer.AcctApplicationID {
								if v, ok := a.Data.(datatype.Unsigned32); !ok || uint32(v) != acct[i] || a.Code != avp.AcctApplicationID {
									fail("mask=%d k=%d: acct id %d differs", mask, k, i)
								}
							}
							for i, a := range cer.AuthApplicationID {
								if v, ok := a.Data.(datatype.Unsigned32); !ok || uint32(v) != auth[i] || a.Code != avp.AuthApplicationID {
									fail("mask=%d k=%d: auth id %d differs", mask, k, i)
								}
							}
							if (gk != 0) != (len(cer.VendorSpecificApplicationID) == 1) {
								fail("mask=%d k=%d gk=%d: %d vendor-specific groups", mask, k, gk, len(cer.VendorSpecificApplicationID))
							}
							if (mask&1 != 0) != (len(cer.OriginHost) != 0) || (mask&2 != 0) != (len(cer.OriginRealm) != 0) || (mask&4 != 0) != (cer.OriginStateID != nil) || (mask&8 != 0) != (cer.InbandSecurityID != nil) {
								fail("mask=%d k=%d: presence of identity / state / security fields differs from the message", mask, k)
							}
							// the same message as a CEA / DWR / DWA: the shape clauses of those structs
							cea := new(CEA)
							if err := mm.Unmarshal(cea); err == nil && (!verifListOK(cea.AcctApplicationID) || !verifListOK(cea.AuthApplicationID) || !verifGroupsOK(cea.VendorSpecificApplicationID)) {
								fail("mask=%d k=%d: nil AVP in a CEA list", mask, k)
							}
							dwr := new(DWR)
							if err := mm.Unmarshal(dwr); err == nil && dwr.OriginStateID != nil && dwr.OriginStateID.Data == nil {
								fail("mask=%d k=%d: DWR Origin-State-Id without data", mask, k)
							}
							mm.Unmarshal(new(DWA))
						}
					}
				}
			}
		}
	}
	fmt.Printf("BOUNDED-CASES %d\n", cases)
	if fails > 0 {
		t.Fail()
	}
}
`

// boundedChecks: the stand-ins that belong to a property.
func (e *Engine) boundedChecks(prop string, r *extraResult) {
	if prop == "C03" {
		out := e.runOverlayTest("diam", depthTest, "TestVerifBoundedNestingDepth")
		survived := map[string]bool{}
		for _, l := range strings.Split(out, "\n") {
			if strings.HasPrefix(l, "BOUNDED-DEPTH ") {
				f := strings.Fields(l)
				if len(f) >= 3 {
					survived[f[1]] = true
				}
			}
		}
		var fails []string
		for _, d := range depthCases {
			if !survived[d] {
				fails = append(fails, "depth="+d)
			}
		}
		why := ""
		if strings.Contains(out, "stack overflow") {
			why = " (fatal error: stack overflow - the process dies)"
		}
		detail := fmt.Sprintf("BOUNDED (not proved): grouped AVPs nested to depth %v decoded on the real code; failures: %v%s", depthCases, fails, why)
		if len(survived) == 0 {
			detail += " | the bounded test did not run: " + truncate(out, 600)
		}
		o := e.directObl("diam.DecodeGrouped#bounded.nesting_depth_up_to_the_message_size_limit", []string{"C03"}, len(fails) == 0 && len(survived) > 0, detail)
		o.Res.Solver = "bounded enumeration"
		o.Fails = fails
		r.obls = append(r.obls, o)
		r.coverage["bounded_stand_ins"] = []string{"diam.DecodeGrouped recursion depth: " + fmt.Sprint(len(depthCases)) + " nesting depths up to the 24-bit message limit (recursion depth is not expressible as a pre/postcondition without a ghost depth parameter); labelled bounded, not counted as proved"}
		r.assumptions = append(r.assumptions, "recursion depth of DecodeGrouped is checked by bounded enumeration only")
		return
	}
	if prop == "C11" || prop == "C12" || prop == "C13" {
		out := e.runOverlayTest("diam/sm/smparser", unmarshalTest, "TestVerifBoundedUnmarshal")
		var fails []string
		cases := "0"
		for _, l := range strings.Split(out, "\n") {
			if strings.HasPrefix(l, "BOUNDED-FAIL ") {
				fails = append(fails, strings.TrimPrefix(l, "BOUNDED-FAIL "))
			}
			if strings.HasPrefix(l, "BOUNDED-CASES ") {
				cases = strings.TrimPrefix(l, "BOUNDED-CASES ")
			}
		}
		ok := len(fails) == 0 && cases != "0"
		detail := fmt.Sprintf("BOUNDED (not proved): the assumed contract of Message.Unmarshal for CER / CEA / DWR / DWA checked on the real reflection code over %s generated messages (presence combinations x application ids x Vendor-Specific group shapes x two orders, built through the API and after a wire round trip); failures: %v", cases, first(fails, 6))
		if cases == "0" {
			detail += " | the bounded test did not run: " + truncate(out, 600)
		}
		o := e.directObl("(*diam.Message).Unmarshal#bounded.the_assumed_contract_for_the_state_machine_structs", []string{"C11", "C12", "C13"}, ok, detail)
		o.Res.Solver = "bounded enumeration"
		o.Fails = fails
		r.obls = append(r.obls, o)
		bs, _ := r.coverage["bounded_stand_ins"].([]string)
		r.coverage["bounded_stand_ins"] = append(bs, "Message.Unmarshal (reflection, outside the verifier's subset): its ASSUMED contract for the four state-machine structs checked over "+cases+" generated messages; labelled bounded, not counted as proved")
		r.assumptions = append(r.assumptions, "Message.Unmarshal's contract for CER / CEA / DWR / DWA is assumed; it is checked by bounded enumeration only ("+cases+" messages)")
	}
	if prop != "C11" && prop != "C12" {
		return
	}
	out := e.runOverlayTest("diam/sm", localAddrTest, "TestVerifBoundedLocalAddresses")
	var fails []string
	cases := "0"
	for _, l := range strings.Split(out, "\n") {
		if strings.HasPrefix(l, "BOUNDED-FAIL ") {
			fails = append(fails, strings.TrimPrefix(l, "BOUNDED-FAIL "))
		}
		if strings.HasPrefix(l, "BOUNDED-CASES ") {
			cases = strings.TrimPrefix(l, "BOUNDED-CASES ")
		}
	}
	ok := len(fails) == 0 && cases != "0"
	detail := fmt.Sprintf("BOUNDED (not proved): %s endpoint forms (IPv4 / IPv6 / zone / v4-mapped / multi-homed a/b:port) enumerated; failures: %v", cases, first(fails, 6))
	if cases == "0" {
		detail += " | the bounded test did not run: " + truncate(out, 600)
	}
	o := e.directObl("sm.getLocalAddresses#bounded.an_address_for_every_ip_endpoint", []string{"C11", "C12"}, ok, detail)
	o.Res.Solver = "bounded enumeration"
	o.Fails = fails
	r.obls = append(r.obls, o)
	bs0, _ := r.coverage["bounded_stand_ins"].([]string)
	r.coverage["bounded_stand_ins"] = append(bs0, "sm.getLocalAddresses: " + cases + " enumerated endpoint forms (string / net parsing is outside the verifier's subset); labelled bounded, not counted as proved")
	r.assumptions = append(r.assumptions, "sm.getLocalAddresses is checked by bounded enumeration only ("+cases+" endpoint forms); its contract is otherwise trusted")
}
