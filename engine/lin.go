package main

// Canonical form of 64-bit index arithmetic. Bit-vector addition is associative
// and commutative (mod 2^64), so sums may be reordered freely; writing every
// offset/index as a sorted linear sum makes equal indices syntactically equal,
// which is what quantifier patterns and the array theory need to match cheaply.

import (
	"sort"
	"strings"
)

type Lin struct {
	c     uint64
	atoms map[string]uint64
}

var linTab = map[string]*Lin{}

func resetLin() { linTab = map[string]*Lin{} }

func linOf(t string) *Lin {
	if l, ok := linTab[t]; ok {
		return l
	}
	if v, ok := lit64(t); ok {
		return &Lin{c: v, atoms: map[string]uint64{}}
	}
	return &Lin{atoms: map[string]uint64{t: 1}}
}

func linCombine(a, b *Lin, sign uint64) *Lin {
	r := &Lin{c: a.c + sign*b.c, atoms: map[string]uint64{}}
	for k, v := range a.atoms {
		r.atoms[k] = v
	}
	for k, v := range b.atoms {
		r.atoms[k] += sign * v
		if r.atoms[k] == 0 {
			delete(r.atoms, k)
		}
	}
	return r
}

func linTerm(l *Lin) string {
	var pos, neg, other []string
	keys := make([]string, 0, len(l.atoms))
	for k := range l.atoms {
		keys = append(keys, k)
	}
	sort.Strings(keys)
	for _, k := range keys {
		switch c := l.atoms[k]; {
		case c == 1:
			pos = append(pos, k)
		case c == ^uint64(0):
			neg = append(neg, k)
		default:
			other = append(other, sx("bvmul", bvLit(c, 64), k))
		}
	}
	terms := append(pos, other...)
	var t string
	if len(terms) == 0 {
		t = bvLit(l.c, 64)
	} else {
		t = terms[0]
		for _, x := range terms[1:] {
			t = sx("bvadd", t, x)
		}
		if l.c != 0 {
			t = sx("bvadd", t, bvLit(l.c, 64))
		}
	}
	for _, x := range neg {
		t = sx("bvsub", t, x)
	}
	return t
}

func add64(a, b string) string {
	l := linCombine(linOf(a), linOf(b), 1)
	t := linTerm(l)
	if _, ok := lit64(t); !ok && strings.ContainsAny(t, " ") {
		linTab[t] = l
	}
	return t
}

func sub64(a, b string) string {
	l := linCombine(linOf(a), linOf(b), ^uint64(0))
	t := linTerm(l)
	if _, ok := lit64(t); !ok && strings.ContainsAny(t, " ") {
		linTab[t] = l
	}
	return t
}
