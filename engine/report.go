package main

// Property-level check: ledger, known findings, violations, replay files, evidence.

import (
	"encoding/json"
	"fmt"
	"os"
	"path/filepath"
	"regexp"
	"sort"
	"strconv"
	"strings"
	"time"
)

type KnownFinding struct {
	Kind       string // known | fixed
	Property   string
	Obligation string
	Witness    string
	What       string
	Commit     string
	Line       int
}

var kfRe = regexp.MustCompile(`(\w+)=`)

func parseKnownFindings(path string) ([]*KnownFinding, error) {
	data, err := os.ReadFile(path)
	if err != nil {
		if os.IsNotExist(err) {
			return nil, nil
		}
		return nil, err
	}
	var out []*KnownFinding
	for i, l := range strings.Split(string(data), "\n") {
		l = strings.TrimSpace(l)
		if l == "" || strings.HasPrefix(l, "#") {
			continue
		}
		var k *KnownFinding
		switch {
		case strings.HasPrefix(l, "known:"):
			k = &KnownFinding{Kind: "known", Line: i + 1}
			l = strings.TrimSpace(l[6:])
		case strings.HasPrefix(l, "fixed:"):
			k = &KnownFinding{Kind: "fixed", Line: i + 1}
			l = strings.TrimSpace(l[6:])
		default:
			return nil, fmt.Errorf("%s:%d: cannot parse", path, i+1)
		}
		// key=value pairs; witness= and what= run to the next known key
		keys := []string{"property", "obligation", "commit", "witness", "what"}
		pos := map[string]int{}
		for _, key := range keys {
			if j := strings.Index(l, key+"="); j >= 0 && (j == 0 || l[j-1] == ' ') {
				pos[key] = j
			}
		}
		get := func(key string) string {
			j, ok := pos[key]
			if !ok {
				return ""
			}
			start := j + len(key) + 1
			end := len(l)
			for _, p := range pos {
				if p > j && p < end {
					end = p
				}
			}
			return strings.TrimSpace(l[start:end])
		}
		k.Property, k.Obligation, k.Commit, k.Witness, k.What = get("property"), get("obligation"), get("commit"), get("witness"), get("what")
		if k.Kind == "fixed" && k.What == "" {
			k.What = l
		}
		out = append(out, k)
	}
	return out, nil
}

func (o *Obl) base() string {
	if i := strings.LastIndex(o.Name, "~"); i > 0 {
		if _, err := strconv.Atoi(o.Name[i+1:]); err == nil {
			return o.Name[:i]
		}
	}
	return o.Name
}

// ledgerName: the name under which an obligation is listed in the ledger. Call-site obligations (atcall, panic) carry
// the source text of the call in braces; the ledger lists them without it, so that a harmless edit of the call's text
// (a renamed local) does not look like a deleted obligation.
func (o *Obl) ledgerName() string {
	n := o.base()
	if o.Kind == "atcall" || o.Kind == "panic" {
		if i := strings.Index(n, "{"); i > 0 && strings.HasSuffix(n, "}") {
			n = n[:i]
		}
	}
	return n
}

func ledgerKind(k string) bool {
	return k == "post" || k == "panic" || k == "impl" || k == "implpre" || k == "lemma" || k == "alloc" || k == "table" || k == "atcall" || strings.HasPrefix(k, "inv")
}

func readLedger(path string) ([]string, error) {
	data, err := os.ReadFile(path)
	if err != nil {
		return nil, err
	}
	var out []string
	for _, l := range strings.Split(string(data), "\n") {
		l = strings.TrimSpace(l)
		if l != "" && !strings.HasPrefix(l, "#") {
			out = append(out, l)
		}
	}
	return out, nil
}

type violation struct {
	Obligation string
	Replay     string
	NoInput    bool
	Why        string
}

type checkOutcome struct {
	violations []violation
	known      []string
}

func safeFile(s string) string {
	return regexp.MustCompile(`[^A-Za-z0-9_.#-]+`).ReplaceAllString(s, "_")
}

// checkProperty is the body of `govc check`.
func (e *Engine) checkProperty(prop, tier string, par int, writeLedger bool) int {
	t0 := time.Now()
	seed, _ := strconv.Atoi(os.Getenv("VERIF_SEED"))
	kfs, err := parseKnownFindings(filepath.Join(e.verif, "KNOWN_FINDINGS.txt"))
	if err != nil {
		fmt.Println("ERROR", err)
		return 2
	}
	e.known = kfs
	if writeLedger {
		e.tier = "thorough" // the ledger lists the obligations of both tiers; thorough-only ones are marked
	}
	rr := e.generate(prop, "")
	extra := e.extraChecks(prop, tier)
	rr.obls = append(rr.obls, extra.obls...)
	rr.errors = append(rr.errors, extra.errors...)
	ledgerPath := filepath.Join(e.verif, "ledger", prop+".txt")
	if writeLedger {
		seen := map[string]bool{}
		var names []string
		for _, o := range rr.obls {
			if o.Dep {
				continue // obligations of functions the property only relies on are listed in the ledgers of their own properties
			}
			if (ledgerKind(o.Kind) || (o.Kind == "pre" && strings.Contains(o.Name, "#pre.go."))) && !seen[o.ledgerName()] {
				seen[o.ledgerName()] = true
				n := o.ledgerName()
				if hasProp(o.Props, "thorough") || (o.fc != nil && o.fc.c != nil && o.fc.c.ThoroughOnly) {
					n += " @thorough"
				}
				names = append(names, n)
			}
		}
		sort.Strings(names)
		os.MkdirAll(filepath.Dir(ledgerPath), 0o755)
		os.WriteFile(ledgerPath, []byte("# obligations that must be generated for "+prop+" (contract-named; safety obligations are regenerated freely)\n"+strings.Join(names, "\n")+"\n"), 0o644)
		fmt.Printf("ledger %s: %d entries\n", ledgerPath, len(names))
		return 0
	}
	e.solveAll(rr.obls, par, e.timeout, "")

	replayDir := filepath.Join(envOr("VERIF_OUT", e.verif), "replays", prop)
	var viols []violation
	var knownLines []string
	addViolation := func(name string, o *Obl, why string) {
		os.MkdirAll(replayDir, 0o755)
		path := filepath.Join(replayDir, safeFile(name)+".json")
		rec := map[string]interface{}{"property": prop, "obligation": name, "reason": why}
		noInput := true
		if o != nil {
			rec["function"] = o.Fn
			rec["kind"] = o.Kind
			rec["clause"] = o.Contract
			rec["position"] = o.Pos.String()
			rec["solver_status"] = o.Res.Status
			rec["solver"] = o.Res.Solver
			rec["solver_output"] = truncate(o.Res.Output, 4000)
			model := map[string]string{}
			for k, w := range o.Watch {
				if k < len(o.Res.Ordered) {
					model[w.Name] = o.Res.Ordered[k]
				}
			}
			rec["model"] = model
			if o.Direct && o.Res.Solver == "bounded enumeration" && strings.Contains(o.Contract, "failures: [") && !strings.Contains(o.Contract, "did not run") {
				// a bounded stand-in executed the real code: the failing inputs listed in the clause text are real
				noInput = false
				rec["failing_inputs_found_by"] = "bounded enumeration on the real code (generated in-package test injected with go test -overlay)"
			}
			if o.Res.Status == "sat" && !o.Direct {
				rp := e.replay(o, prop)
				rec["replay"] = rp
				if rp.Reproduced {
					noInput = false
				}
			}
		}
		b, _ := json.MarshalIndent(rec, "", " ")
		os.WriteFile(path, b, 0o644)
		viols = append(viols, violation{name, path, noInput, why})
	}
	for _, er := range rr.errors {
		name := er
		if i := strings.Index(er, ":"); i > 0 {
			name = er[:i]
		}
		addViolation(name, nil, er)
	}
	// ledger
	ledger, lerr := readLedger(ledgerPath)
	if lerr != nil {
		addViolation(prop+"#ledger", nil, "no ledger: "+lerr.Error())
	}
	gen := map[string]bool{}
	for _, o := range rr.obls {
		gen[o.base()] = true
		gen[o.ledgerName()] = true
	}
	for _, l := range ledger {
		if strings.HasSuffix(l, " @thorough") {
			if tier != "thorough" {
				continue
			}
			l = strings.TrimSuffix(l, " @thorough")
		}
		if !gen[l] {
			addViolation(l+"#exists", nil, "ledger obligation was not generated (function or clause renamed, deleted, or its contract orphaned)")
		}
	}
	// group failures by base name
	byBase := map[string][]*Obl{}
	var order []string
	for _, o := range rr.obls {
		if _, ok := byBase[o.base()]; !ok {
			order = append(order, o.base())
		}
		byBase[o.base()] = append(byBase[o.base()], o)
	}
	nObl, nDis, nVac, nVacOK := 0, 0, 0, 0
	knownCount := 0
	backends := map[string]int{}
	solverSecs := 0.0
	for _, base := range order {
		group := byBase[base]
		var kf *KnownFinding
		for _, k := range e.known {
			if k.Kind == "known" && k.Obligation == base && (k.Property == prop || k.Property == "") {
				kf = k
			}
		}
		failed := false
		for _, o := range group {
			solverSecs += o.Res.Secs
			if !o.ok() {
				failed = true
			}
		}
		if kf != nil {
			knownCount += len(group)
			if !failed {
				fmt.Fprintf(os.Stderr, "note: known finding %s now discharges (the defect seems to be gone); remove or mark it fixed in KNOWN_FINDINGS.txt\n", base)
				continue
			}
			// is every failure inside the stated witness class?
			inside := true
			for _, o := range group {
				if o.ok() {
					continue
				}
				if !e.failureInsideWitness(o, kf) {
					inside = false
					addViolation(o.Name, o, "obligation fails outside the witness class of the known finding ("+kf.Witness+")")
				}
			}
			if inside {
				knownLines = append(knownLines, fmt.Sprintf("KNOWN-FINDING: property=%s %s %s", prop, base, kf.What))
			}
			continue
		}
		for _, o := range group {
			if o.Kind == "cover" || o.Kind == "canary" {
				nVac++
				if o.ok() {
					nVacOK++
				} else {
					why := "vacuity guard failed: "
					if o.Kind == "cover" {
						why += "the assumed facts leave no reachable return / unsatisfiable precondition (" + o.Res.Status + ")"
					} else {
						why += "false is provable from the assumed facts"
					}
					addViolation(o.Name, o, why)
				}
				continue
			}
			if o.Direct && o.Res.Solver == "bounded enumeration" {
				// a bounded stand-in is never counted as an obligation discharged; it is listed under its own key
				st := "passed"
				if !o.ok() {
					st = "FAILED"
					addViolation(o.Name, o, "bounded stand-in failed: "+o.Contract)
				}
				e.boundedResults = append(e.boundedResults, o.Name+": "+st)
				continue
			}
			nObl++
			if o.ok() {
				nDis++
				backends[o.Res.Solver]++
			} else {
				why := "obligation not discharged: " + o.Res.Status
				addViolation(o.Name, o, why)
			}
		}
	}
	for _, l := range knownLines {
		fmt.Println(l)
	}
	for _, v := range viols {
		suffix := ""
		if v.NoInput {
			suffix = " no-failing-input-found"
		}
		fmt.Printf("VIOLATION property=%s replay=%s obligation=%s%s\n", prop, v.Replay, v.Obligation, suffix)
	}
	// evidence
	ev := e.evidence(prop, tier, seed, rr, extra, nObl, nDis, nVac, nVacOK, knownCount, knownLines, backends, solverSecs, len(viols), time.Since(t0).Seconds())
	os.MkdirAll(filepath.Join(envOr("VERIF_OUT", e.verif), "evidence"), 0o755)
	b, _ := json.MarshalIndent(ev, "", " ")
	os.WriteFile(filepath.Join(envOr("VERIF_OUT", e.verif), "evidence", prop+".json"), b, 0o644)
	fmt.Printf("%s %s: %d/%d obligations discharged, %d/%d vacuity guards ok, %d known-finding obligations, %d violations, %.1fs\n",
		prop, tier, nDis, nObl, nVacOK, nVac, knownCount, len(viols), time.Since(t0).Seconds())
	if len(viols) > 0 {
		return 1
	}
	return 0
}

func truncate(s string, n int) string {
	if len(s) > n {
		return s[:n] + "…"
	}
	return s
}

// failureInsideWitness re-solves a failed obligation with the known finding's
// witness class excluded. unsat => every counterexample lies inside the class.
func (e *Engine) failureInsideWitness(o *Obl, kf *KnownFinding) bool {
	if kf.Witness == "" || kf.Witness == "*" {
		return true
	}
	if o.Direct {
		// bounded stand-in: every failing input must match the witness pattern
		re, err := regexp.Compile("^(" + kf.Witness + ")$")
		if err != nil || len(o.Fails) == 0 {
			return false
		}
		for _, f := range o.Fails {
			if !re.MatchString(f) {
				return false
			}
		}
		return true
	}
	w, ok := o.fc.witness[kf.Obligation]
	if !ok {
		return false
	}
	o2 := *o
	o2.Goal = or(o.Goal, w) // goal holds, or we are inside the witness class
	f := writeScratch("w_"+safeFile(o.Name)+".smt2", o2.script(false))
	defer os.Remove(f)
	r := runSolvers(f, e.timeout, nil)
	return r.Status == "unsat"
}

func (e *Engine) evidence(prop, tier string, seed int, rr *runResult, extra *extraResult, nObl, nDis, nVac, nVacOK, knownCount int, knownLines []string,
	backends map[string]int, solverSecs float64, nviol int, wall float64) map[string]interface{} {
	assum := map[string]bool{}
	uncontracted := map[string]bool{}
	for _, fc := range rr.fcs {
		for a := range fc.assumptions {
			assum[a] = true
		}
		for u := range fc.uncontracted {
			uncontracted[fc.name+" calls "+u] = true
		}
	}
	for _, a := range extra.assumptions {
		assum[a] = true
	}
	for a := range e.assumptionsUsed {
		assum[a] = true
	}
	var as []string
	for a := range assum {
		as = append(as, a)
	}
	for u := range uncontracted {
		as = append(as, "callee without contract treated as arbitrary: "+u)
	}
	as = append(as,
		"go/packages type checker and go/ssa builder: SSA means what the source means",
		"govc translation of SSA to SMT and its memory model (guarded by must-fail selftest corpus and canaries)",
		"slices are shorter than 2^46 elements (modelling bound on len/cap/offset)",
		"closed world for datatype.Type implementations (the library's own types)",
	)
	sort.Strings(as)
	// samples: two discharged obligations (SMT text abbreviated) and one failed one if any
	var samples []interface{}
	n := 0
	for _, o := range rr.obls {
		if o.Kind == "cover" || o.Kind == "canary" || !o.ok() || o.Direct {
			continue
		}
		if n < 2 && (o.Kind == "post" || o.Kind == "impl" || strings.HasPrefix(o.Kind, "inv")) {
			samples = append(samples, map[string]interface{}{"obligation": o.Name, "clause": o.Contract, "status": o.Res.Status, "solver": o.Res.Solver,
				"secs": o.Res.Secs, "smt_tail": tail(o.script(false), 1200)})
			n++
		}
	}
	for _, s := range extra.samples {
		samples = append(samples, s)
	}
	if len(samples) == 0 {
		for _, o := range rr.obls {
			samples = append(samples, map[string]interface{}{"obligation": o.Name, "status": o.Res.Status})
			if len(samples) >= 2 {
				break
			}
		}
	}
	cov := map[string]interface{}{
		"bounded_checks_not_counted_as_proved": e.boundedResults,
		"obligations":               nObl,
		"discharged":                nDis,
		"checker_cmd":               fmt.Sprintf("/verif/bin/govc -check -prop %s -tier %s  (solvers raced per obligation: z3-new 5.1.0, z3 4.8.12, cvc5 1.0.x; timeout %ds)", prop, tier, e.timeout),
		"trusted_base":              []string{"go/types + go/ssa (x/tools v0.29.0)", "govc VC generator", "z3 5.1.0 / z3 4.8.12 / cvc5", "/verif/contracts/*.spec (spec functions transcribed from RFC 6733; trusted contracts of stdlib functions)", "built-in exact models of encoding/binary.BigEndian, net.IP.To4/To16, time.Unix, math.Float*bits"},
		"functions_under_contract":  rr.funcs,
		"vacuity_guards":            map[string]int{"checked": nVac, "ok": nVacOK},
		"known_finding_obligations": knownCount,
		"known_findings":            knownLines,
		"discharged_by_backend":     backends,
		"solver_time_s":             round2(solverSecs),
		"samples":                   samples,
		"integers":                  "machine integers at exact width (bit-vectors); nothing is treated as mathematical",
	}
	// the slowest proofs of this run: the margin to the per-obligation timeout is what keeps the check from alarming on load
	type slow struct {
		Obligation string  `json:"obligation"`
		Secs       float64 `json:"secs"`
		Solver     string  `json:"solver"`
	}
	var sl []slow
	for _, o := range rr.obls {
		if o.Direct || o.Kind == "cover" || o.Kind == "canary" || !hasProp(o.Props, prop) {
			continue
		}
		sl = append(sl, slow{o.Name, round2(o.Res.Secs), o.Res.Solver})
	}
	sort.Slice(sl, func(i, j int) bool { return sl[i].Secs > sl[j].Secs })
	if len(sl) > 5 {
		sl = sl[:5]
	}
	cov["slowest_obligations"] = sl
	for k, v := range extra.coverage {
		cov[k] = v
	}
	return map[string]interface{}{
		"property_id": prop, "tier": tier, "seed": seed, "level": e.levelOf(prop), "coverage": cov,
		"assumptions": as, "wall_s": round2(wall), "violations": nviol,
	}
}

func round2(f float64) float64 { return float64(int(f*100+0.5)) / 100 }

func tail(s string, n int) string {
	if len(s) > n {
		return "…" + s[len(s)-n:]
	}
	return s
}

func (e *Engine) levelOf(prop string) string {
	if prop == "C18" {
		return "exploration"
	}
	return "proof"
}
