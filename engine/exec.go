package main

import (
	"fmt"
	"go/ast"
	"go/token"
	"go/types"
	"sort"
	"strings"

	"golang.org/x/tools/go/ssa"
)

// ---------------------------------------------------------------------------
// CFG analysis

func (fc *FnCtx) findLoops() []*ssa.BasicBlock {
	fn := fc.fn
	for _, b := range fn.Blocks {
		for _, s := range b.Succs {
			if s.Dominates(b) {
				fc.backEdge[edge{b, s}] = true
				if fc.loopBody[s] == nil {
					fc.loopBody[s] = map[*ssa.BasicBlock]bool{s: true}
				}
			}
		}
	}
	for e := range fc.backEdge {
		body := fc.loopBody[e.to]
		var stack []*ssa.BasicBlock
		if !body[e.from] {
			body[e.from] = true
			stack = append(stack, e.from)
		}
		for len(stack) > 0 {
			n := stack[len(stack)-1]
			stack = stack[:len(stack)-1]
			for _, p := range n.Preds {
				if !body[p] {
					body[p] = true
					stack = append(stack, p)
				}
			}
		}
	}
	var headers []*ssa.BasicBlock
	for h := range fc.loopBody {
		headers = append(headers, h)
	}
	minPos := func(h *ssa.BasicBlock) token.Pos {
		var m token.Pos
		for b := range fc.loopBody[h] {
			for _, in := range b.Instrs {
				if _, ok := in.(*ssa.DebugRef); ok {
					continue
				}
				if p := in.Pos(); p.IsValid() && (m == 0 || p < m) {
					m = p
				}
			}
		}
		return m
	}
	sort.Slice(headers, func(i, j int) bool {
		pi, pj := minPos(headers[i]), minPos(headers[j])
		if pi != pj {
			return pi < pj
		}
		return headers[i].Index < headers[j].Index
	})
	for i, h := range headers {
		fc.loopOrd[h] = i
	}
	// topological order ignoring back edges
	var order []*ssa.BasicBlock
	seen := map[*ssa.BasicBlock]bool{}
	var dfs func(b *ssa.BasicBlock)
	dfs = func(b *ssa.BasicBlock) {
		seen[b] = true
		for _, s := range b.Succs {
			if !seen[s] && !fc.backEdge[edge{b, s}] {
				dfs(s)
			}
		}
		order = append(order, b)
	}
	if len(fn.Blocks) > 0 {
		dfs(fn.Blocks[0])
	}
	for i, j := 0, len(order)-1; i < j; i, j = i+1, j-1 {
		order[i], order[j] = order[j], order[i]
	}
	return order
}

// ---------------------------------------------------------------------------

type passInfo struct {
	loopWrites map[*ssa.BasicBlock]map[string]bool
	loopAll    map[*ssa.BasicBlock]bool
	loopSpawn  map[*ssa.BasicBlock]bool // a goroutine started in one round is running in the next
}

func (fc *FnCtx) noteWrite(key string) {
	if fc.pass == nil || fc.curBlock == nil {
		return
	}
	for h, body := range fc.loopBody {
		if body[fc.curBlock] {
			if fc.pass.loopWrites[h] == nil {
				fc.pass.loopWrites[h] = map[string]bool{}
			}
			fc.pass.loopWrites[h][key] = true
		}
	}
}

// noteSpawnInLoops: like noteHavocAll, for the loops whose head can be reached again from the current block (a goroutine
// started on the way out of a loop is not running in any later round).
func (fc *FnCtx) noteSpawnInLoops() {
	if fc.pass == nil || fc.curBlock == nil {
		return
	}
	for h, body := range fc.loopBody {
		if !body[fc.curBlock] {
			continue
		}
		seen := map[*ssa.BasicBlock]bool{}
		var reach func(b *ssa.BasicBlock) bool
		reach = func(b *ssa.BasicBlock) bool {
			for _, s := range b.Succs {
				if s == h {
					return true
				}
				if body[s] && !seen[s] {
					seen[s] = true
					if reach(s) {
						return true
					}
				}
			}
			return false
		}
		if reach(fc.curBlock) {
			fc.pass.loopAll[h] = true
			fc.pass.loopSpawn[h] = true
		}
	}
}

func (fc *FnCtx) noteHavocAll() {
	if fc.pass == nil || fc.curBlock == nil {
		return
	}
	for h, body := range fc.loopBody {
		if body[fc.curBlock] {
			fc.pass.loopAll[h] = true
		}
	}
}

// verifyFunction generates all obligations of one function.
func (e *Engine) verifyFunction(fn *ssa.Function, c *Contract) (fc *FnCtx, err error) {
	// pass 1: discover what each loop writes
	dry := e.newFnCtx(fn, c)
	dry.dry = true
	dry.pass = &passInfo{loopWrites: map[*ssa.BasicBlock]map[string]bool{}, loopAll: map[*ssa.BasicBlock]bool{}, loopSpawn: map[*ssa.BasicBlock]bool{}}
	if err := dry.run(); err != nil {
		return dry, err
	}
	fc = e.newFnCtx(fn, c)
	fc.prev = dry.pass
	fc.prevSorts = dry.keySort
	if err := fc.run(); err != nil {
		return fc, err
	}
	return fc, nil
}

func (fc *FnCtx) run() (err error) {
	defer func() {
		if r := recover(); r != nil {
			if u, ok := r.(unsupportedErr); ok {
				err = fmt.Errorf("%s: %v", fc.name, u)
				return
			}
			panic(r)
		}
	}()
	fn := fc.fn
	if len(fn.Blocks) == 0 {
		return fmt.Errorf("%s: no body", fc.name)
	}
	resetLin()
	order := fc.findLoops()
	fc.declare("ac0", sInt)
	st := &State{heap: map[string]string{}, hac: map[string]string{}, gen: 0, ac: "ac0"}
	fc.gens[0].ac = "ac0"
	fc.assumeGlobal(sx(">", "ac0", "0"))
	fc.reach = "true"
	fc.cur = st
	// parameters
	for i, p := range fn.Params {
		v := fc.freshV(p.Type(), "p_"+p.Name())
		fc.assumeGlobal(fc.wf(v, st))
		fc.vals[p] = v
		fc.params[p.Name()] = v
		if fc.c != nil && i < len(fc.c.Params) {
			fc.params[fc.c.Params[i]] = v
		}
		cs := fc.e.comps(p.Type())
		for j, t := range v.T {
			fc.watchBase = append(fc.watchBase, watch{p.Name() + "." + cs[j].Suf, t})
		}
		fc.watchStruct(p.Name(), v, st, 0)
		if sl, ok := p.Type().Underlying().(*types.Slice); ok {
			if b, ok := sl.Elem().Underlying().(*types.Basic); ok && b.Kind() == types.Uint8 {
				arr := fc.heapGet(st, "M:bv8.", memSort(sBV(8)))
				for k := 0; k < 64; k++ {
					fc.watchBase = append(fc.watchBase, watch{fmt.Sprintf("%s[%d]", p.Name(), k),
						sx("select", sx("select", arr, v.T[0]), add64(v.T[1], bvLit(uint64(k), 64)))})
				}
			}
		}
	}
	for _, fv := range fn.FreeVars {
		v := fc.freshV(fv.Type(), "fv_"+fv.Name())
		fc.assumeGlobal(fc.wf(v, st))
		fc.vals[fv] = v
	}
	fc.entry = st.clone()
	// bind free variables by name (value captured = content of the cell)
	for _, fv := range fn.FreeVars {
		if isPointer(fv.Type()) {
			lv := fc.load(fc.entry, fc.locOf(fc.vals[fv]))
			fc.assumeGlobal(fc.wf(lv, st))
			fc.assumeGlobal(sx("distinct", fc.vals[fv].T[0], "0"))
			fc.params[fv.Name()] = lv
		}
	}
	// behavioural subtyping, precondition side: a function that implements an interface / function-type contract is
	// called through that contract, whose callers establish only ITS preconditions; so every precondition of the
	// function must follow from them (checked here, before the function's own preconditions are assumed)
	if fc.c != nil && !fc.dry && len(fc.c.Requires) > 0 {
		for _, impl := range fc.c.Impl {
			ic := fc.e.specs.Contracts["functype:"+impl]
			if ic == nil {
				ic = fc.e.specs.Contracts["iface:"+impl]
			}
			if ic == nil {
				continue
			}
			envI := fc.newEnv(fc.entry, fc.entry)
			envI.vars = map[string]V{}
			names := ic.Params
			if ic.Kind == "functype" {
				names = names[1:]
			}
			for i, n := range names {
				if i < len(fn.Params) {
					envI.vars[n] = fc.vals[fn.Params[i]]
				}
			}
			var ps []string
			for _, r := range ic.Requires {
				ps = append(ps, envI.evalBool(r.E))
			}
			envO := fc.newEnv(fc.entry, fc.entry)
			for _, r := range fc.c.Requires {
				fc.oblige("implpre", ic.Name+"."+r.Label, implies(and(ps...), envO.evalBool(r.E)), fn.Pos(), fc.clauseProps(r), r.Text)
			}
		}
	}
	// preconditions
	if fc.c != nil {
		env := fc.newEnv(fc.entry, fc.entry)
		for _, r := range fc.c.Requires {
			fc.assumeGlobal(env.evalBool(r.E))
		}
		for _, r := range fc.c.Hints {
			fc.assumeGlobal(env.evalBool(r.E))
		}
		for _, r := range fc.c.Assumes {
			fc.assumeGlobal(env.evalBool(r.E))
			fc.assumptions[fmt.Sprintf("assume in %s: %s", fc.name, r.Text)] = true
		}
		// witness classes of known findings are evaluated over the entry state
		fc.witness = map[string]string{}
		for _, k := range fc.e.known {
			if k.Kind == "known" && strings.HasPrefix(k.Obligation, fc.name+"#") && k.Witness != "" && k.Witness != "*" {
				if wx, err := ParseExpr(k.Witness); err == nil {
					fc.witness[k.Obligation] = fc.def("witness", sBool, env.evalBool(wx))
				}
			}
		}
		// proof by cases: every split line is a dimension (its alternatives plus "none of them");
		// the cases are the cross product of the dimensions
		fc.splits = []string{"true"}
		for _, dim := range fc.c.SplitDims {
			var alts, negs []string
			for _, sp := range dim {
				t := fc.def("split", sBool, env.evalBool(sp.E))
				alts = append(alts, t)
				negs = append(negs, not(t))
			}
			alts = append(alts, fc.def("splitnone", sBool, and(negs...)))
			var next []string
			for _, c := range fc.splits {
				for _, a := range alts {
					next = append(next, and(c, a))
				}
			}
			fc.splits = next
		}
		if len(fc.c.SplitDims) == 0 {
			fc.splits = nil
		}
		fc.splitAt = len(fc.items)
		if !fc.dry {
			for _, ck := range fc.c.Checks {
				fc.oblige("entry", ck.Label, env.evalBool(ck.E), fn.Pos(), fc.clauseProps(ck), ck.Text)
			}
		}
		if !fc.dry {
			// vacuity guard: the preconditions must be satisfiable
			o := fc.oblige("cover", "requires_satisfiable", "true", fn.Pos(), nil, "")
			o.ExpectSat = true
		}
	}
	for _, b := range order {
		fc.execBlock(b)
	}
	if fc.c != nil && !fc.dry && len(fc.retReach) > 0 {
		// vacuity guard: under the assumed contracts some return is reachable
		fc.reach = "true"
		o := fc.oblige("cover", "some_return_reachable", or(fc.retReach...), fn.Pos(), nil, "")
		o.ExpectSat = true
		// canary: "false" must not be provable at the returns, with every assumed fact in the context
		fc.reach = fc.def("anyret", sBool, or(fc.retReach...))
		cn := fc.oblige("canary", "false_not_provable", "false", fn.Pos(), nil, "")
		cn.Canary = true
		fc.reach = "true"
	}
	return nil
}

func (fc *FnCtx) execBlock(b *ssa.BasicBlock) {
	fc.curBlock = b
	var conds []string
	var sts []*State
	var preds []*ssa.BasicBlock
	for _, p := range b.Preds {
		if fc.backEdge[edge{p, b}] {
			continue
		}
		c, ok := fc.edgeCond[edge{p, b}]
		if !ok {
			continue // predecessor not executed (unreachable)
		}
		conds = append(conds, c)
		sts = append(sts, fc.outState[p])
		preds = append(preds, p)
	}
	if b.Index == 0 {
		fc.reach = "true"
	} else if len(conds) == 0 {
		return // unreachable (e.g. recover block)
	} else {
		fc.reach = fc.def(fmt.Sprintf("reach_b%d", b.Index), sBool, or(conds...))
		fc.cur = fc.mergeStates(conds, sts)
	}
	isHeader := fc.loopBody[b] != nil
	// phi nodes
	var phis []*ssa.Phi
	for _, in := range b.Instrs {
		if ph, ok := in.(*ssa.Phi); ok {
			phis = append(phis, ph)
		} else {
			break
		}
	}
	for _, ph := range phis {
		var v V
		first := true
		for i := len(b.Preds) - 1; i >= 0; i-- {
			p := b.Preds[i]
			if fc.backEdge[edge{p, b}] {
				continue
			}
			c, ok := fc.edgeCond[edge{p, b}]
			if !ok {
				continue
			}
			in := fc.coerce(fc.val(ph.Edges[i]), ph.Type())
			if first {
				v = in
				first = false
			} else {
				v = fc.iteV(c, in, v)
			}
		}
		v.Ty = ph.Type()
		fc.vals[ph] = fc.defV(ph.Name()+"_"+ph.Comment, v)
	}
	if isHeader {
		fc.loopHeader(b, phis)
	}
	for _, in := range b.Instrs[len(phis):] {
		fc.execInstr(in)
	}
}

func (fc *FnCtx) coerce(v V, t types.Type) V {
	if v.Ty != nil && len(v.T) == len(fc.e.comps(t)) {
		return v
	}
	// nil constant of another shape
	return fc.zero(t)
}

func (fc *FnCtx) setEdge(from, to *ssa.BasicBlock, cond string) {
	c := fc.def(fmt.Sprintf("edge_b%d_b%d", from.Index, to.Index), sBool, and(fc.reach, cond))
	e := edge{from, to}
	if old, ok := fc.edgeCond[e]; ok {
		c = fc.def("edge", sBool, or(old, c))
	}
	fc.edgeCond[e] = c
	fc.outState[from] = fc.cur
	if fc.backEdge[e] {
		fc.loopBackEdge(from, to, c)
	}
}

// ---------------------------------------------------------------------------
// loops

func (fc *FnCtx) loopSpec(h *ssa.BasicBlock) *LoopSpec {
	if fc.c == nil {
		return nil
	}
	return fc.c.Loops[fc.loopOrd[h]]
}

func (fc *FnCtx) loopEnv(h *ssa.BasicBlock, st *State, phiVals map[string]V) *Env {
	env := fc.newEnv(st, fc.entry)
	env.at = h
	env.phiNames = map[string]bool{}
	for k, v := range phiVals {
		env.vars[k] = v
		env.phiNames[k] = true
	}
	return env
}

func (fc *FnCtx) phiNames(phis []*ssa.Phi, get func(*ssa.Phi) V) map[string]V {
	m := map[string]V{}
	for _, ph := range phis {
		if ph.Comment != "" {
			m[ph.Comment] = get(ph)
		}
		m[ph.Name()] = get(ph)
	}
	return m
}

func (fc *FnCtx) loopHeader(h *ssa.BasicBlock, phis []*ssa.Phi) {
	ls := fc.loopSpec(h)
	ord := fc.loopOrd[h]
	pos := token.NoPos
	for _, in := range h.Instrs {
		if p := in.Pos(); p.IsValid() {
			pos = p
			break
		}
	}
	// 1. invariants hold on entry
	if ls != nil && !fc.dry {
		env := fc.loopEnv(h, fc.cur, fc.phiNames(phis, func(p *ssa.Phi) V { return fc.vals[p] }))
		for _, inv := range ls.Invariants {
			fc.oblige(fmt.Sprintf("inv%d.entry", ord), inv.Label, env.evalBool(inv.E), pos, fc.clauseProps(inv), inv.Text)
		}
	}
	fc.loopPre[h] = fc.cur.clone()
	// names as they are on entry to the loop (the loop frame is stated over these)
	entryNames := fc.phiNames(phis, func(p *ssa.Phi) V { return fc.vals[p] })
	if fc.prev != nil && fc.prev.loopSpawn[h] {
		fc.cur.spawned = true
	}
	// 2. havoc
	for _, ph := range phis {
		nv := fc.freshV(ph.Type(), "loop_"+ph.Name()+"_"+ph.Comment)
		fc.assume(fc.wf(nv, fc.cur))
		fc.vals[ph] = nv
	}
	if fc.dry {
		fc.havocAll(fc.cur)
	} else if ls != nil && len(ls.Modifies) > 0 {
		// explicit loop frame: only the listed locations change (every write in the body is checked against it)
		env := fc.loopEnv(h, fc.cur, entryNames)
		pre := fc.cur.clone()
		envOld := &Env{fc: fc, vars: env.vars, bound: env.bound, cur: pre, old: pre, oldAc: pre.ac, pkg: env.pkg, at: h, phiNames: env.phiNames}
		var ts []modTarget
		for _, m := range ls.Modifies {
			ts = append(ts, envOld.resolveTarget(m)...)
		}
		if fc.loopTargets == nil {
			fc.loopTargets = map[*ssa.BasicBlock]*loopFrame{}
		}
		fc.loopTargets[h] = &loopFrame{targets: ts, ac: pre.ac, text: strings.Join(ls.Modifies, ", ")}
		nac := fc.fresh("ac", sInt)
		fc.assume(sx(">=", nac, fc.cur.ac))
		fc.cur.ac = nac
		for _, m := range ls.Modifies {
			fc.havocTargetNoCheck(env, pre, m)
		}
	} else {
		if fc.prev.loopAll[h] {
			fc.havocAll(fc.cur)
		} else {
			keys := make([]string, 0)
			for k := range fc.prev.loopWrites[h] {
				keys = append(keys, k)
			}
			sort.Strings(keys)
			for _, k := range keys {
				srt := fc.keySortOr(k)
				if srt == "" {
					continue
				}
				fc.heapGet(fc.cur, k, srt)
				fc.cur.heap[k] = fc.fresh("lh:"+k, srt)
			}
			nac := fc.fresh("ac", sInt)
			fc.assume(sx(">=", nac, fc.cur.ac))
			fc.cur.ac = nac
			for _, k := range keys {
				fc.cur.hac[k] = nac
			}
		}
	}
	// 3. assume invariants
	if ls != nil {
		env := fc.loopEnv(h, fc.cur, fc.phiNames(phis, func(p *ssa.Phi) V { return fc.vals[p] }))
		for _, inv := range ls.Invariants {
			if fc.tierActive(inv.Props) {
				fc.assume(env.evalBool(inv.E))
			}
		}
		for _, hc := range ls.Hints {
			fc.assume(env.evalBool(hc.E))
		}
		if ls.Decreases != nil {
			d := env.eval(ls.Decreases.E)
			fc.loopDec[h] = fc.def("dec", fc.e.comps(d.Ty)[0].Sort, d.T[0])
		}
		// eachround: a fresh "seen" flag per item, false at the start of every round
		for i := range ls.EachRound {
			key := fmt.Sprintf("ghost:eachround:%d:%d", fc.loopOrd[h], i)
			srt := fieldSort(sBool)
			arr := fc.heapGet(fc.cur, key, srt)
			fc.heapSet(fc.cur, key, srt, sx("store", arr, "0", "false"))
			fc.noteWrite(key)
		}
	}
}

func (fc *FnCtx) keySortOr(k string) string {
	if s, ok := fc.keySort[k]; ok {
		return s
	}
	if fc.prevSorts != nil {
		return fc.prevSorts[k]
	}
	return ""
}

func (fc *FnCtx) loopBackEdge(from, h *ssa.BasicBlock, cond string) {
	ls := fc.loopSpec(h)
	if ls == nil || fc.dry {
		return
	}
	var phis []*ssa.Phi
	for _, in := range h.Instrs {
		if ph, ok := in.(*ssa.Phi); ok {
			phis = append(phis, ph)
		} else {
			break
		}
	}
	idx := -1
	for i, p := range h.Preds {
		if p == from {
			idx = i
		}
	}
	saveReach := fc.reach
	fc.reach = cond
	env := fc.loopEnv(h, fc.cur, fc.phiNames(phis, func(p *ssa.Phi) V { return fc.coerce(fc.val(p.Edges[idx]), p.Type()) }))
	ord := fc.loopOrd[h]
	pos := token.NoPos
	for _, in := range h.Instrs {
		if p := in.Pos(); p.IsValid() {
			pos = p
			break
		}
	}
	for _, hc := range ls.Hints {
		fc.assume(env.evalBool(hc.E))
	}
	for _, inv := range ls.Invariants {
		fc.oblige(fmt.Sprintf("inv%d.preserve", ord), inv.Label, env.evalBool(inv.E), pos, fc.clauseProps(inv), inv.Text)
	}
	for i, er := range ls.EachRound {
		key := fmt.Sprintf("ghost:eachround:%d:%d", ord, i)
		arr := fc.heapGet(fc.cur, key, fieldSort(sBool))
		fc.oblige(fmt.Sprintf("inv%d.eachround", ord), er.Cond.Label, sx("select", arr, "0"), pos, fc.clauseProps(er.Cond), "in every round some call to "+er.Callee+" satisfies: "+er.Cond.Text)
	}
	if ls.Decreases != nil {
		d := env.eval(ls.Decreases.E)
		old := fc.loopDec[h]
		goal := and(sx("bvslt", d.T[0], old), sx("bvsle", bvLit(0, bvWidth(fc.e.comps(d.Ty)[0].Sort)), old))
		fc.oblige(fmt.Sprintf("inv%d.decreases", ord), "variant", goal, pos, fc.clauseProps(ls.Decreases), ls.Decreases.Text)
	}
	fc.reach = saveReach
}

func (fc *FnCtx) clauseProps(c *Clause) []string {
	if len(c.Props) > 0 {
		return c.Props
	}
	if fc.c != nil {
		return fc.c.Props
	}
	return nil
}

// ---------------------------------------------------------------------------
// instructions

func isKind[T ast.Node](n ast.Node) bool { _, ok := n.(T); return ok }

func (fc *FnCtx) execInstr(in ssa.Instruction) {
	switch x := in.(type) {
	case *ssa.DebugRef:
		return
	case *ssa.BinOp:
		fc.vals[x] = fc.defV(x.Name(), fc.binop(x.Op, fc.val(x.X), fc.val(x.Y), x.Type(), x.Pos()))
	case *ssa.UnOp:
		fc.unop(x)
	case *ssa.Convert:
		fc.vals[x] = fc.defV(x.Name(), fc.convert(fc.val(x.X), x.Type()))
	case *ssa.ChangeType:
		v := fc.val(x.X)
		fc.vals[x] = V{Ty: x.Type(), T: v.T, Loc: v.Loc}
	case *ssa.ChangeInterface:
		v := fc.val(x.X)
		fc.vals[x] = V{Ty: x.Type(), T: v.T}
	case *ssa.MakeInterface:
		fc.vals[x] = fc.makeIface(fc.val(x.X), x.Type())
	case *ssa.TypeAssert:
		fc.typeAssert(x)
	case *ssa.Extract:
		fc.vals[x] = fc.sub(fc.val(x.Tuple), x.Index)
	case *ssa.Alloc:
		fc.alloc(x)
	case *ssa.FieldAddr:
		fc.fieldAddr(x)
	case *ssa.Field:
		fc.vals[x] = fc.sub(fc.val(x.X), x.Field)
	case *ssa.IndexAddr:
		fc.indexAddr(x)
	case *ssa.Index:
		fc.index(x)
	case *ssa.Slice:
		fc.slice(x)
	case *ssa.Store:
		fc.storeInstr(x)
	case *ssa.MakeSlice:
		fc.makeSlice(x)
	case *ssa.MakeMap:
		r := fc.allocRef("map")
		fc.vals[x] = V{Ty: x.Type(), T: []string{r}}
		fc.mapInit(x.Type(), r)
	case *ssa.MakeChan:
		r := fc.allocRef("chan")
		fc.vals[x] = V{Ty: x.Type(), T: []string{r}}
		arr := fc.heapGet(fc.cur, "ghost:closed", fieldSort(sBool))
		fc.heapSet(fc.cur, "ghost:closed", fieldSort(sBool), sx("store", arr, r, "false"))
		// the capacity the channel was made with (spec: chancap(ch)); 0 = unbuffered
		carr := fc.heapGet(fc.cur, "ghost:chancap", fieldSort(sBV(64)))
		fc.heapSet(fc.cur, "ghost:chancap", fieldSort(sBV(64)), sx("store", carr, r, fc.toInt64(fc.val(x.Size))))
	case *ssa.MakeClosure:
		fc.makeClosure(x)
	case *ssa.Lookup:
		fc.lookup(x)
	case *ssa.MapUpdate:
		fc.mapUpdate(x)
	case *ssa.Range:
		fc.vals[x] = V{Ty: x.Type(), T: nil}
		fc.rangeOf(x)
	case *ssa.Next:
		fc.next(x)
	case *ssa.Call:
		v := fc.call(x, x.Common(), x.Pos())
		v.Ty = x.Type()
		fc.vals[x] = v
	case *ssa.Go:
		fc.goStmt(x)
	case *ssa.Defer:
		fc.defers = append(fc.defers, deferRec{x, fc.reach})
	case *ssa.RunDefers:
		fc.runDefers()
	case *ssa.Send:
		fc.send(x)
	case *ssa.Select:
		fc.selectInstr(x)
	case *ssa.Panic:
		txt := fc.srcText(x.Pos(), isKind[*ast.CallExpr])
		if !(fc.c != nil && fc.c.MayPanic) {
			fc.oblige("safe", "panic{"+txt+"}", "false", x.Pos(), nil, "")
		}
		fc.outState[fc.curBlock] = fc.cur
	case *ssa.If:
		c := fc.val(x.Cond).T[0]
		b := fc.curBlock
		fc.setEdge(b, b.Succs[0], c)
		fc.setEdge(b, b.Succs[1], not(c))
	case *ssa.Jump:
		fc.setEdge(fc.curBlock, fc.curBlock.Succs[0], "true")
	case *ssa.Return:
		fc.ret(x)
	default:
		panic(unsupported(fmt.Sprintf("instruction %T: %s", in, in)))
	}
}

func (fc *FnCtx) allocRef(hint string) string {
	r := fc.def(hint, sInt, fc.cur.ac)
	if fc.localRefs == nil {
		fc.localRefs = map[string]bool{}
	}
	fc.localRefs[r] = true
	for name, g := range fc.e.specs.Ghosts {
		if g.InitFalse {
			key := "ghost:" + name + "."
			arr := fc.heapGet(fc.cur, key, fieldSort(sBool))
			fc.heapSet(fc.cur, key, fieldSort(sBool), sx("store", arr, r, "false"))
			fc.noteWrite(key)
		}
	}
	fc.cur.ac = fc.def("ac", sInt, sx("+", fc.cur.ac, "1"))
	return r
}

// ---- arithmetic ------------------------------------------------------------

func (fc *FnCtx) binop(op token.Token, a, b V, rt types.Type, pos token.Pos) V {
	t := a.Ty
	if t == nil {
		t = b.Ty
	}
	res := func(s string) V { return V{Ty: rt, T: []string{s}} }
	switch {
	case isInteger(t) || (op == token.SHL || op == token.SHR):
		x, y := a.T[0], b.T[0]
		w := bvWidth(fc.e.comps(a.Ty)[0].Sort)
		uns := isUnsigned(a.Ty)
		switch op {
		case token.ADD:
			if w == 64 {
				return res(add64(x, y))
			}
			return res(sx("bvadd", x, y))
		case token.SUB:
			if w == 64 {
				return res(sub64(x, y))
			}
			return res(sx("bvsub", x, y))
		case token.MUL:
			return res(sx("bvmul", x, y))
		case token.QUO, token.REM:
			fc.safe("div", not(eq(y, bvLit(0, w))), pos, isKind[*ast.BinaryExpr])
			o := map[bool]map[token.Token]string{true: {token.QUO: "bvudiv", token.REM: "bvurem"}, false: {token.QUO: "bvsdiv", token.REM: "bvsrem"}}[uns][op]
			return res(sx(o, x, y))
		case token.AND:
			return res(sx("bvand", x, y))
		case token.OR:
			return res(sx("bvor", x, y))
		case token.XOR:
			return res(sx("bvxor", x, y))
		case token.AND_NOT:
			return res(sx("bvand", x, sx("bvnot", y)))
		case token.SHL, token.SHR:
			wy := bvWidth(fc.e.comps(b.Ty)[0].Sort)
			if !isUnsigned(b.Ty) {
				if _, isConst := b.T[0], false; !isConst && !strings.HasPrefix(y, "#") {
					fc.safe("shift", sx("bvsge", y, bvLit(0, wy)), pos, isKind[*ast.BinaryExpr])
				}
			}
			// bring the count to the operand width, saturating
			var cnt string
			switch {
			case wy == w:
				cnt = y
			case wy < w:
				cnt = sx(fmt.Sprintf("(_ zero_extend %d)", w-wy), y)
			default:
				cnt = ite(sx("bvuge", y, bvLit(uint64(w), wy)), bvLit(uint64(w), w), sx(fmt.Sprintf("(_ extract %d 0)", w-1), y))
			}
			if op == token.SHL {
				return res(sx("bvshl", x, cnt))
			}
			if uns {
				return res(sx("bvlshr", x, cnt))
			}
			return res(sx("bvashr", x, cnt))
		case token.EQL:
			return res(eq(x, y))
		case token.NEQ:
			return res(not(eq(x, y)))
		case token.LSS, token.LEQ, token.GTR, token.GEQ:
			o := map[bool]map[token.Token]string{
				true:  {token.LSS: "bvult", token.LEQ: "bvule", token.GTR: "bvugt", token.GEQ: "bvuge"},
				false: {token.LSS: "bvslt", token.LEQ: "bvsle", token.GTR: "bvsgt", token.GEQ: "bvsge"}}[uns][op]
			return res(sx(o, x, y))
		}
	case isBoolean(t):
		switch op {
		case token.EQL:
			return res(eq(a.T[0], b.T[0]))
		case token.NEQ:
			return res(not(eq(a.T[0], b.T[0])))
		case token.AND, token.LAND:
			return res(and(a.T[0], b.T[0]))
		case token.OR, token.LOR:
			return res(or(a.T[0], b.T[0]))
		}
	case isString(t):
		switch op {
		case token.EQL:
			return res(eq(a.T[0], b.T[0]))
		case token.NEQ:
			return res(not(eq(a.T[0], b.T[0])))
		case token.ADD:
			fc.declareFun("strcat", []string{sInt, sInt}, sInt)
			r := fc.def("cat", sInt, sx("strcat", a.T[0], b.T[0]))
			fc.assume(eq(sx("slen", r), sx("bvadd", sx("slen", a.T[0]), sx("slen", b.T[0]))))
			fc.assume(fc.wf(V{Ty: rt, T: []string{r}}, fc.cur))
			return res(r)
		case token.LSS, token.LEQ, token.GTR, token.GEQ:
			return res(fc.fresh("strcmp", sBool))
		}
	case isFloat(t):
		switch op {
		case token.EQL, token.NEQ, token.LSS, token.LEQ, token.GTR, token.GEQ:
			return res(fc.fresh("fcmp", sBool))
		}
		return fc.freshV(rt, "farith")
	default:
		// pointers, interfaces, maps, chans, funcs, structs: componentwise equality
		if op == token.EQL || op == token.NEQ {
			a2, b2 := a, b
			if len(a2.T) != len(b2.T) {
				// comparison with nil of different shape
				if len(a2.T) < len(b2.T) {
					a2 = fc.zero(b2.Ty)
				} else {
					b2 = fc.zero(a2.Ty)
				}
			}
			var cs []string
			if isIface(a2.Ty) && isIface(b2.Ty) {
				cs = []string{eq(a2.T[0], b2.T[0]), eq(a2.T[1], b2.T[1])}
			} else if isSlice(a2.Ty) {
				cs = []string{eq(a2.T[0], b2.T[0])} // only comparison with nil is legal
			} else {
				for i := range a2.T {
					cs = append(cs, eq(a2.T[i], b2.T[i]))
				}
			}
			if op == token.EQL {
				return res(and(cs...))
			}
			return res(not(and(cs...)))
		}
	}
	panic(unsupported(fmt.Sprintf("binop %s on %s", op, t)))
}

func (fc *FnCtx) unop(x *ssa.UnOp) {
	v := fc.val(x.X)
	switch x.Op {
	case token.MUL: // load
		loc := fc.locOf(v)
		viaUnsafe := len(v.T) > 0 && fc.unsafeVals[v.T[0]]
		if !viaUnsafe {
			fc.nilCheck(v, x.X, x.Pos())
		}
		lv := fc.load(fc.cur, loc)
		lv.Ty = x.Type()
		lv = fc.defV(x.Name(), lv)
		if viaUnsafe && len(lv.T) > 0 {
			fc.unsafeVals[lv.T[0]] = true
		}
		// refs found in the heap were allocated before the location was last written
		bound := fc.cur.ac
		if cs := fc.e.comps(loc.Ty); len(cs) > 0 {
			var kb string
			if loc.Kind == locField {
				kb = fc.acOfKey(fc.cur, loc.S+"."+loc.Pre+cs[0].Suf)
			} else {
				kb = fc.acOfKey(fc.cur, fc.e.memKey(loc.Ty)+"."+cs[0].Suf)
			}
			// an object allocated after the key was last written here (e.g. by a callee) may hold younger refs
			if kb != bound {
				bound = ite(sx("<", loc.Ref, kb), kb, bound)
			}
		}
		if w := fc.wfAc(lv, bound); w != "true" {
			fc.assume(w)
		}
		fc.vals[x] = lv
	case token.SUB:
		fc.vals[x] = V{Ty: x.Type(), T: []string{sx("bvneg", v.T[0])}}
	case token.XOR:
		fc.vals[x] = V{Ty: x.Type(), T: []string{sx("bvnot", v.T[0])}}
	case token.NOT:
		fc.vals[x] = V{Ty: x.Type(), T: []string{not(v.T[0])}}
	case token.ARROW:
		// channel receive: sequential fragment, the value is arbitrary; the ghost count of completed receives grows
		fc.syncPoint()
		if fc.c != nil && fc.c.NonBlocking {
			fc.oblige("nonblocking", "receive", "false", x.Pos(), nil, "")
		}
		fc.vals[x] = fc.freshWF(x.Type(), "recv", fc.cur)
		fc.countRecv(v.T[0], "true")
		fc.assumptions["channel receive yields an arbitrary value (sequential fragment)"] = true
	default:
		panic(unsupported("unop " + x.Op.String()))
	}
}

// wfLoaded: type invariants of a value loaded from the heap.
func (fc *FnCtx) wfLoaded(v V) string {
	return fc.wf(v, fc.cur)
}

func (fc *FnCtx) nilCheck(p V, src ssa.Value, pos token.Pos) {
	if p.Loc != nil && p.Loc.Kind == locElem {
		return
	}
	if _, ok := src.(*ssa.Alloc); ok {
		return
	}
	if _, ok := src.(*ssa.Global); ok {
		return
	}
	if _, ok := src.(*ssa.FieldAddr); ok {
		return // checked at the FieldAddr
	}
	if _, ok := src.(*ssa.IndexAddr); ok {
		return
	}
	if _, ok := src.(*ssa.FreeVar); ok {
		return
	}
	ref := p.T[0]
	if fc.nilChecked == nil {
		fc.nilChecked = map[string]*ssa.BasicBlock{}
	}
	if b, ok := fc.nilChecked[ref]; ok && b.Dominates(fc.curBlock) {
		return
	}
	fc.nilChecked[ref] = fc.curBlock
	fc.safe("nil", not(eq(ref, "0")), pos, func(n ast.Node) bool {
		switch n.(type) {
		case *ast.SelectorExpr, *ast.StarExpr, *ast.IndexExpr:
			return true
		}
		return false
	})
	fc.assume(not(eq(ref, "0")))
}

func (fc *FnCtx) convert(v V, to types.Type) V {
	from := v.Ty
	switch {
	case isInteger(from) && isInteger(to):
		wf, wt := bvWidth(fc.e.comps(from)[0].Sort), bvWidth(fc.e.comps(to)[0].Sort)
		x := v.T[0]
		switch {
		case wt == wf:
			return V{Ty: to, T: []string{x}}
		case wt < wf:
			return V{Ty: to, T: []string{sx(fmt.Sprintf("(_ extract %d 0)", wt-1), x)}}
		default:
			ext := "sign_extend"
			if isUnsigned(from) {
				ext = "zero_extend"
			}
			return V{Ty: to, T: []string{sx(fmt.Sprintf("(_ %s %d)", ext, wt-wf), x)}}
		}
	case isSlice(from) && isString(to):
		// string(b): immutable copy of the bytes
		sid := fc.fresh("str", sInt)
		nv := V{Ty: to, T: []string{sid}}
		fc.assume(eq(sx("slen", sid), v.T[2]))
		fc.assume(fc.wf(nv, fc.cur))
		mem := fc.heapGet(fc.cur, "M:bv8.", memSort(sBV(8)))
		i := "i!q"
		fc.assume(fmt.Sprintf("(forall ((%s (_ BitVec 64))) (! (=> (bvult %s %s) (= (select (strarr %s) %s) (select (select %s %s) (bvadd %s %s)))) :pattern ((select (strarr %s) %s))))",
			i, i, v.T[2], sid, i, mem, v.T[0], v.T[1], i, sid, i))
		return nv
	case isString(from) && isSlice(to):
		// []byte(s): fresh allocation holding the bytes of s
		base := fc.allocRef("bytes")
		key := "M:bv8."
		mem := fc.heapGet(fc.cur, key, memSort(sBV(8)))
		fc.heapSet(fc.cur, key, memSort(sBV(8)), sx("store", mem, base, sx("strarr", v.T[0])))
		l := sx("slen", v.T[0])
		return V{Ty: to, T: []string{ite(eq(l, bvLit(0, 64)), base, base), bvLit(0, 64), l, l}}
	case isFloat(from) && isFloat(to), isInteger(from) && isFloat(to), isFloat(from) && isInteger(to):
		fc.assumptions["numeric conversion involving floating point is abstracted (arbitrary result)"] = true
		return fc.freshV(to, "fconv")
	case isInteger(from) && isString(to):
		return fc.freshWF(to, "runestr", fc.cur)
	case from.Underlying().String() == "unsafe.Pointer" || to.Underlying().String() == "unsafe.Pointer":
		// reinterpreting memory through unsafe.Pointer is outside the memory model: nothing about such a function is proved,
		// unless its contract says (with a reason) that the function only READS through such pointers: then the value read
		// is arbitrary
		if fc.c != nil && fc.c.UnsafeReads != "" {
			fc.assumptions["unsafe.Pointer conversions in "+fc.name+" are only read through (the value read is arbitrary; nil checks on such values are not generated): "+fc.c.UnsafeReads] = true
			nv := fc.freshWF(to, "unsafe", fc.cur)
			if fc.unsafeVals == nil {
				fc.unsafeVals = map[string]bool{}
			}
			if len(nv.T) > 0 {
				fc.unsafeVals[nv.T[0]] = true
			}
			return nv
		}
		panic(unsupported("conversion through unsafe.Pointer (the typed heap model cannot follow it)"))
	case isPointer(from) || isPointer(to):
		return V{Ty: to, T: v.T, Loc: v.Loc}
	}
	if len(fc.e.comps(from)) == len(fc.e.comps(to)) {
		return V{Ty: to, T: v.T}
	}
	panic(unsupported(fmt.Sprintf("convert %s -> %s", from, to)))
}

func (fc *FnCtx) typeAssert(x *ssa.TypeAssert) {
	iv := fc.val(x.X)
	at := x.AssertedType
	var ok string
	var val V
	if isIface(at) {
		if ai, isI := at.Underlying().(*types.Interface); isI && types.Implements(x.X.Type(), ai) {
			// the operand's static type already has the methods: the assertion only excludes nil
			ok = not(eq(iv.T[0], "0"))
		} else {
			pred := fc.implPred(at)
			ok = and(not(eq(iv.T[0], "0")), sx(pred, iv.T[0]))
		}
		val = V{Ty: at, T: iv.T}
	} else {
		tag := fc.tagTerm(at)
		ok = eq(iv.T[0], tag)
		val = fc.unbox(iv, at)
	}
	if x.CommaOk {
		okn := fc.def(x.Name()+"_ok", sBool, ok)
		z := fc.zero(at)
		val = fc.iteV(okn, val, z)
		val = fc.defV(x.Name(), val)
		tv := V{Ty: x.Type(), T: append(append([]string{}, val.T...), okn)}
		fc.vals[x] = tv
		return
	}
	fc.safe("assert", ok, x.Pos(), isKind[*ast.TypeAssertExpr])
	fc.assume(ok)
	fc.vals[x] = fc.defV(x.Name(), val)
}

// ---- memory ----------------------------------------------------------------

func (fc *FnCtx) alloc(x *ssa.Alloc) {
	el := x.Type().(*types.Pointer).Elem()
	r := fc.allocRef("new_" + x.Name())
	// integer ghosts declared initzero start at 0 for a newly allocated object of their argument type
	for name, g := range fc.e.specs.Ghosts {
		if g.InitZero && strings.TrimPrefix(g.Arg, "*") == fc.e.shortType(el) {
			key := "ghost:" + name + "."
			arr := fc.heapGet(fc.cur, key, fieldSort(sBV(64)))
			fc.heapSet(fc.cur, key, fieldSort(sBV(64)), sx("store", arr, r, bvLit(0, 64)))
			fc.noteWrite(key)
		}
	}
	if arr, ok := el.Underlying().(*types.Array); ok {
		// backing store of an array: zeroed
		et := arr.Elem()
		mk := fc.e.memKey(et)
		for _, c := range fc.e.comps(et) {
			key := mk + "." + c.Suf
			mem := fc.heapGet(fc.cur, key, memSort(c.Sort))
			z := zeroOf(c.Sort)
			fc.heapSet(fc.cur, key, memSort(c.Sort), sx("store", mem, r, fmt.Sprintf("((as const %s) %s)", arrSort(sBV(64), c.Sort), z)))
		}
		fc.vals[x] = V{Ty: x.Type(), T: []string{r}, Loc: &Loc{Kind: locElem, Ref: r, Idx: bvLit(0, 64), Ty: et, ArrN: arr.Len()}}
		return
	}
	v := V{Ty: x.Type(), T: []string{r}}
	loc := fc.locOf(v)
	// zero initialise
	if len(fc.e.comps(el)) > 0 {
		fc.store(fc.cur, loc, fc.zero(el))
	}
	fc.vals[x] = v
	if fc.isPrivateCell(x) {
		fc.privateCells = append(fc.privateCells, loc)
	}
}

// isPrivateCell: a local variable that lives in a heap cell only because a closure of this function captures it,
// where the closure is under contract and only deferred or called directly: no other code ever holds the cell's
// address, so a call to unknown code cannot change it.
func (fc *FnCtx) isPrivateCell(x *ssa.Alloc) bool {
	if x.Referrers() == nil {
		return false
	}
	for _, r := range *x.Referrers() {
		switch u := r.(type) {
		case *ssa.Store:
			if u.Addr != x {
				return false
			}
		case *ssa.UnOp:
			if u.Op != token.MUL {
				return false
			}
		case *ssa.DebugRef:
		case *ssa.MakeClosure:
			if u.Referrers() == nil {
				return false
			}
			// the capturing closure itself may write the cell: only a closure under contract (whose frame says what it
			// writes) leaves the cell private; without a contract its call havocs everything, this cell included
			if cf, ok := u.Fn.(*ssa.Function); !ok || fc.e.specs.Contracts[fc.e.canon(cf)] == nil {
				return false
			}
			for _, cr := range *u.Referrers() {
				switch c := cr.(type) {
				case *ssa.Defer:
					if c.Call.Value != u {
						return false
					}
				case *ssa.Call:
					if c.Call.Value != u {
						return false
					}
				case *ssa.DebugRef:
				default:
					return false
				}
			}
		default:
			return false
		}
	}
	return true
}

func (fc *FnCtx) fieldAddr(x *ssa.FieldAddr) {
	p := fc.val(x.X)
	st := x.X.Type().Underlying().(*types.Pointer).Elem().Underlying().(*types.Struct)
	ft := st.Field(x.Field).Type()
	base := fc.locOf(p)
	fc.nilCheck(p, x.X, x.Pos())
	if base.Kind != locField {
		panic(unsupported("field of a slice element struct"))
	}
	loc := &Loc{Kind: locField, S: base.S, Pre: base.Pre + fmt.Sprintf("f%d_", x.Field), Ref: base.Ref, Ty: ft}
	fc.vals[x] = V{Ty: x.Type(), T: []string{base.Ref}, Loc: loc}
}

func (fc *FnCtx) indexAddr(x *ssa.IndexAddr) {
	b := fc.val(x.X)
	i := fc.toInt64(fc.val(x.Index))
	match := isKind[*ast.IndexExpr]
	switch u := x.X.Type().Underlying().(type) {
	case *types.Slice:
		if !fc.isVarargsIndex(x) {
			fc.safe("index", sx("bvult", i, b.T[2]), x.Pos(), match)
			fc.assume(sx("bvult", i, b.T[2]))
		}
		fc.vals[x] = V{Ty: x.Type(), T: []string{b.T[0]}, Loc: &Loc{Kind: locElem, Ref: b.T[0], Idx: fc.def("idx", sBV(64), add64(b.T[1], i)), Ty: u.Elem()}}
	case *types.Pointer: // pointer to array
		arr := u.Elem().Underlying().(*types.Array)
		l := fc.locOf(b)
		if _, isConst := x.Index.(*ssa.Const); !isConst {
			fc.safe("index", sx("bvult", i, bvLit(uint64(arr.Len()), 64)), x.Pos(), match)
			fc.assume(sx("bvult", i, bvLit(uint64(arr.Len()), 64)))
		}
		if l.Kind != locElem {
			panic(unsupported("array inside a struct"))
		}
		fc.vals[x] = V{Ty: x.Type(), T: []string{l.Ref}, Loc: &Loc{Kind: locElem, Ref: l.Ref, Idx: fc.def("idx", sBV(64), add64(l.Idx, i)), Ty: arr.Elem()}}
	default:
		panic(unsupported("IndexAddr on " + x.X.Type().String()))
	}
}

// varargs arrays (new [n]any (varargs)) are indexed with constants in range.
func (fc *FnCtx) isVarargsIndex(x *ssa.IndexAddr) bool { return false }

func (fc *FnCtx) toInt64(v V) string {
	w := bvWidth(fc.e.comps(v.Ty)[0].Sort)
	if w == 64 {
		return v.T[0]
	}
	if isUnsigned(v.Ty) {
		return sx(fmt.Sprintf("(_ zero_extend %d)", 64-w), v.T[0])
	}
	return sx(fmt.Sprintf("(_ sign_extend %d)", 64-w), v.T[0])
}

func (fc *FnCtx) index(x *ssa.Index) {
	// array value or string (go/ssa uses Index for s[i] on strings since x/tools 0.2x, Lookup before)
	v := fc.val(x.X)
	if isString(x.X.Type()) {
		i := fc.toInt64(fc.val(x.Index))
		fc.safe("index", sx("bvult", i, sx("slen", v.T[0])), x.Pos(), isKind[*ast.IndexExpr])
		fc.assume(sx("bvult", i, sx("slen", v.T[0])))
		fc.vals[x] = V{Ty: x.Type(), T: []string{sx("select", sx("strarr", v.T[0]), i)}}
		return
	}
	if arr, ok := x.X.Type().Underlying().(*types.Array); ok {
		n := len(fc.e.comps(arr.Elem()))
		if c, ok := x.Index.(*ssa.Const); ok {
			k := int(c.Int64())
			fc.vals[x] = V{Ty: x.Type(), T: v.T[k*n : (k+1)*n]}
			return
		}
	}
	panic(unsupported("Index on " + x.X.Type().String()))
}

func (fc *FnCtx) slice(x *ssa.Slice) {
	v := fc.val(x.X)
	match := isKind[*ast.SliceExpr]
	var base, off, ln, cp string
	isStr := false
	switch u := x.X.Type().Underlying().(type) {
	case *types.Slice:
		base, off, ln, cp = v.T[0], v.T[1], v.T[2], v.T[3]
	case *types.Pointer:
		arr := u.Elem().Underlying().(*types.Array)
		l := fc.locOf(v)
		if l.Kind != locElem {
			panic(unsupported("slice of array inside struct"))
		}
		base, off, ln, cp = l.Ref, l.Idx, bvLit(uint64(arr.Len()), 64), bvLit(uint64(arr.Len()), 64)
	case *types.Basic:
		isStr = true
		ln = sx("slen", v.T[0])
		cp = ln
	default:
		panic(unsupported("Slice on " + x.X.Type().String()))
	}
	lo := bvLit(0, 64)
	if x.Low != nil {
		lo = fc.toInt64(fc.val(x.Low))
	}
	hi := ln
	if x.High != nil {
		hi = fc.toInt64(fc.val(x.High))
	}
	mx := cp
	if x.Max != nil {
		mx = fc.toInt64(fc.val(x.Max))
	}
	// Go: 0 <= lo <= hi <= max <= cap (for strings: hi <= len)
	goal := and(sx("bvule", lo, hi), sx("bvule", hi, mx), sx("bvule", mx, cp))
	trivial := x.Low == nil && x.High == nil && x.Max == nil
	if !trivial {
		fc.safe("slice", goal, x.Pos(), match)
		fc.assume(goal)
	}
	if isStr {
		fc.declareFun("substr", []string{sInt, sBV(64), sBV(64)}, sInt)
		sid := fc.def("substr", sInt, ite(and(eq(lo, bvLit(0, 64)), eq(hi, ln)), v.T[0], sx("substr", v.T[0], lo, hi)))
		nv := V{Ty: x.Type(), T: []string{sid}}
		fc.assume(eq(sx("slen", sid), sub64(hi, lo)))
		fc.assume(fc.wf(nv, fc.cur))
		i := "i!q"
		fc.assume(fmt.Sprintf("(forall ((%s (_ BitVec 64))) (! (=> (bvult %s (bvsub %s %s)) (= (select (strarr %s) %s) (select (strarr %s) (bvadd %s %s)))) :pattern ((select (strarr %s) %s))))",
			i, i, hi, lo, sid, i, v.T[0], lo, i, sid, i))
		fc.vals[x] = nv
		return
	}
	nv := V{Ty: x.Type(), T: []string{base, add64(off, lo), sub64(hi, lo), sub64(mx, lo)}}
	fc.vals[x] = fc.defV(x.Name(), nv)
}

func (fc *FnCtx) storeInstr(x *ssa.Store) {
	p := fc.val(x.Addr)
	v := fc.val(x.Val)
	loc := fc.locOf(p)
	fc.nilCheck(p, x.Addr, x.Pos())
	v = fc.coerce(v, loc.Ty)
	fc.frameCheck(loc, x.Pos())
	fc.store(fc.cur, loc, v)
}

func (fc *FnCtx) makeSlice(x *ssa.MakeSlice) {
	l := fc.toInt64(fc.val(x.Len))
	c := fc.toInt64(fc.val(x.Cap))
	match := func(n ast.Node) bool {
		ce, ok := n.(*ast.CallExpr)
		if !ok {
			return false
		}
		id, ok := ce.Fun.(*ast.Ident)
		return ok && id.Name == "make"
	}
	goal := and(sx("bvsle", bvLit(0, 64), l), sx("bvsle", l, c), sx("bvult", c, bvLit(1<<47, 64)))
	if _, isConst := x.Len.(*ssa.Const); !isConst || x.Len != x.Cap {
		fc.safe("make", goal, x.Pos(), match)
		fc.assume(goal)
	}
	fc.allocObligation(x, l)
	base := fc.allocRef("mk_" + x.Name())
	et := elemOf(x.Type())
	mk := fc.e.memKey(et)
	for _, cmp := range fc.e.comps(et) {
		key := mk + "." + cmp.Suf
		mem := fc.heapGet(fc.cur, key, memSort(cmp.Sort))
		z := zeroOf(cmp.Sort)
		if isString(et) {
			z = emptyStrSid
		}
		fc.heapSet(fc.cur, key, memSort(cmp.Sort), sx("store", mem, base, fmt.Sprintf("((as const %s) %s)", arrSort(sBV(64), cmp.Sort), z)))
	}
	fc.vals[x] = fc.defV(x.Name(), V{Ty: x.Type(), T: []string{base, bvLit(0, 64), l, c}})
}

// allocObligation: C03 resource contract "alloc <= bound".
func (fc *FnCtx) allocObligation(x *ssa.MakeSlice, l string) {
	if fc.c == nil || fc.c.AllocBound == nil || fc.dry {
		return
	}
	env := fc.newEnv(fc.cur, fc.entry)
	env.vars["alloc"] = V{Ty: types.Typ[types.Int], T: []string{l}}
	txt := fc.srcText(x.Pos(), isKind[*ast.CallExpr])
	fc.oblige("alloc", "make{"+txt+"}", env.evalBool(fc.c.AllocBound.E), x.Pos(), fc.clauseProps(fc.c.AllocBound), fc.c.AllocBound.Text)
}

func (fc *FnCtx) makeClosure(x *ssa.MakeClosure) {
	r := fc.allocRef("closure")
	fn := x.Fn.(*ssa.Function)
	arr := fc.heapGet(fc.cur, "ghost:closure_fn", fieldSort(sInt))
	fc.heapSet(fc.cur, "ghost:closure_fn", fieldSort(sInt), sx("store", arr, r, fmt.Sprint(fc.e.funcID(fn))))
	for i, b := range x.Bindings {
		bv := fc.val(b)
		for j, c := range fc.e.comps(bv.Ty) {
			key := fmt.Sprintf("ghost:closure_bind:%s:%d.%s", fc.e.canon(fn), i, c.Suf)
			a := fc.heapGet(fc.cur, key, fieldSort(c.Sort))
			fc.heapSet(fc.cur, key, fieldSort(c.Sort), sx("store", a, r, bv.T[j]))
		}
	}
	fc.vals[x] = V{Ty: x.Type(), T: []string{r}}
}

// ---- maps ------------------------------------------------------------------

func (fc *FnCtx) mapKeys(mt types.Type) (dom string, ksort string, vals []string, vcomps []Comp) {
	m := mt.Underlying().(*types.Map)
	kc := fc.e.comps(m.Key())
	name := sanitize(fc.e.shortType(m.Key()))
	if len(kc) == 1 {
		ksort = kc[0].Sort
	} else {
		ksort = "|K:" + name + "|"
		if !fc.dtDecl[ksort] {
			fc.dtDecl[ksort] = true
			var fs []string
			for i, c := range kc {
				fs = append(fs, fmt.Sprintf("(|k%d:%s| %s)", i, name, c.Sort))
			}
			fc.decls = append(fc.decls, fmt.Sprintf("(declare-datatypes ((%s 0)) (((|mk:%s| %s))))", ksort, name, strings.Join(fs, " ")))
		}
	}
	pre := "map:" + fc.e.shortType(mt)
	dom = pre + ".dom"
	fc.keySort[dom] = arrSort(sInt, arrSort(ksort, sBool))
	vcomps = fc.e.comps(m.Elem())
	for _, c := range vcomps {
		k := pre + ".v" + c.Suf
		fc.keySort[k] = arrSort(sInt, arrSort(ksort, c.Sort))
		vals = append(vals, k)
	}
	return
}

func (fc *FnCtx) mapKeyTerm(mt types.Type, k V) string {
	m := mt.Underlying().(*types.Map)
	kc := fc.e.comps(m.Key())
	if len(kc) == 1 {
		return k.T[0]
	}
	name := sanitize(fc.e.shortType(m.Key()))
	return sx("|mk:"+name+"|", k.T...)
}

func (fc *FnCtx) mapInit(mt types.Type, ref string) {
	dom, ksort, _, _ := fc.mapKeys(mt)
	d := fc.heapGet(fc.cur, dom, fc.keySort[dom])
	fc.heapSet(fc.cur, dom, fc.keySort[dom], sx("store", d, ref, fmt.Sprintf("((as const %s) false)", arrSort(ksort, sBool))))
}

func (fc *FnCtx) mapRead(st *State, mt types.Type, m V, k V) (ok string, val V) {
	dom, _, vals, vcomps := fc.mapKeys(mt)
	kt := fc.mapKeyTerm(mt, k)
	d := fc.heapGet(st, dom, fc.keySort[dom])
	ok = and(not(eq(m.T[0], "0")), sx("select", sx("select", d, m.T[0]), kt))
	et := mt.Underlying().(*types.Map).Elem()
	val = V{Ty: et}
	z := fc.zero(et)
	for i := range vcomps {
		a := fc.heapGet(st, vals[i], fc.keySort[vals[i]])
		if vcomps[i].Ref {
			fc.refBoundMap(a, fc.keySort[vals[i]])
		}
		val.T = append(val.T, ite(ok, sx("select", sx("select", a, m.T[0]), kt), z.T[i]))
	}
	return
}

// refBoundMap: entry-state heap invariant for map values: a map that existed at entry holds only references to objects
// that existed at entry.
func (fc *FnCtx) refBoundMap(arr, sort string) {
	if !strings.HasPrefix(arr, "|H0:") || fc.declared["refbound:"+arr] {
		return
	}
	fc.declared["refbound:"+arr] = true
	// sort is (Array Int (Array K V)): recover K
	inner := strings.TrimSuffix(strings.TrimPrefix(sort, "(Array Int (Array "), "))")
	k := inner[:strings.LastIndex(inner, " ")]
	fc.assumeGlobal(fmt.Sprintf("(forall ((i!q Int) (k!q %s)) (! (=> (< i!q ac0) (< (select (select %s i!q) k!q) ac0)) :pattern ((select (select %s i!q) k!q))))", k, arr, arr))
}

func (fc *FnCtx) lookup(x *ssa.Lookup) {
	m := fc.val(x.X)
	k := fc.val(x.Index)
	if isString(x.X.Type()) {
		i := fc.toInt64(k)
		fc.safe("index", sx("bvult", i, sx("slen", m.T[0])), x.Pos(), isKind[*ast.IndexExpr])
		fc.assume(sx("bvult", i, sx("slen", m.T[0])))
		fc.vals[x] = V{Ty: x.Type(), T: []string{sx("select", sx("strarr", m.T[0]), i)}}
		return
	}
	ok, val := fc.mapRead(fc.cur, x.X.Type(), m, k)
	val = fc.defV(x.Name(), val)
	if w := fc.wf(val, fc.cur); w != "true" {
		fc.assume(w)
	}
	if x.CommaOk {
		fc.vals[x] = V{Ty: x.Type(), T: append(append([]string{}, val.T...), fc.def(x.Name()+"_ok", sBool, ok))}
	} else {
		fc.vals[x] = val
	}
}

func (fc *FnCtx) mapUpdate(x *ssa.MapUpdate) {
	m := fc.val(x.Map)
	k := fc.val(x.Key)
	v := fc.val(x.Value)
	mt := x.Map.Type()
	fc.safe("nilmap", not(eq(m.T[0], "0")), x.Pos(), isKind[*ast.IndexExpr])
	fc.assume(not(eq(m.T[0], "0")))
	fc.frameCheckMap(mt, m, x.Pos())
	fc.mapStore(fc.cur, mt, m, k, v)
}

// frameCheckMap: a write to (or a deletion from) map m is inside every active frame, and is a write of the enclosing loops.
func (fc *FnCtx) frameCheckMap(mt types.Type, m V, pos token.Pos) {
	dom, _, vals, _ := fc.mapKeys(mt)
	fc.noteWrite(dom)
	for _, k := range vals {
		fc.noteWrite(k)
	}
	if fc.dry {
		return
	}
	for _, fs := range fc.activeFrames() {
		if fs.label == "" && fc.localRefs[m.T[0]] {
			continue
		}
		goal := fc.frameGoalF(fs, dom, m.T[0], "")
		if goal == "true" {
			continue
		}
		fc.oblige("frame", fs.label+"store{"+fc.srcText(pos, isAssignLike)+"}", goal, pos, fc.cprops(), fs.text)
	}
}

func (fc *FnCtx) mapStore(st *State, mt types.Type, m, k, v V) {
	dom, _, vals, vcomps := fc.mapKeys(mt)
	kt := fc.mapKeyTerm(mt, k)
	d := fc.heapGet(st, dom, fc.keySort[dom])
	fc.heapSet(st, dom, fc.keySort[dom], sx("store", d, m.T[0], sx("store", sx("select", d, m.T[0]), kt, "true")))
	v = fc.coerce(v, mt.Underlying().(*types.Map).Elem())
	for i := range vcomps {
		a := fc.heapGet(st, vals[i], fc.keySort[vals[i]])
		fc.heapSet(st, vals[i], fc.keySort[vals[i]], sx("store", a, m.T[0], sx("store", sx("select", a, m.T[0]), kt, v.T[i])))
	}
}

func (fc *FnCtx) rangeOf(x *ssa.Range) {}

func (fc *FnCtx) next(x *ssa.Next) {
	r := x.Iter.(*ssa.Range)
	tup := x.Type().(*types.Tuple)
	ok := fc.fresh("next_ok", sBool)
	kv := fc.freshWF(tup.At(1).Type(), "next_k", fc.cur)
	var vv V
	if isMap(r.X.Type()) {
		m := fc.val(r.X)
		in, val := fc.mapRead(fc.cur, r.X.Type(), m, kv)
		fc.assume(implies(ok, in))
		vv = val
		vv.Ty = tup.At(2).Type()
		if len(vv.T) != len(fc.e.comps(vv.Ty)) { // value unused: invalid type
			vv = V{Ty: vv.Ty}
			for _, c := range fc.e.comps(vv.Ty) {
				vv.T = append(vv.T, zeroOf(c.Sort))
			}
		}
	} else {
		vv = fc.freshWF(tup.At(2).Type(), "next_v", fc.cur)
	}
	out := V{Ty: x.Type(), T: []string{ok}}
	out.T = append(out.T, kv.T...)
	out.T = append(out.T, vv.T...)
	fc.vals[x] = out
}

// ---- concurrency primitives (sequential abstraction) -------------------------

func (fc *FnCtx) goStmt(x *ssa.Go) {
	// spawn: the callee's precondition is checked, none of its effects are visible
	fc.spawn(x.Common(), x.Pos())
}

// syncPoint: once this function has started a goroutine, what that goroutine writes may be visible after any later
// synchronisation - a channel operation or a call (which may lock, wait, receive). Race freedom is assumed, so plain
// reads in between still see this function's own view. Everything except what unknown code cannot change is forgotten.
func (fc *FnCtx) syncPoint() {
	if !fc.cur.spawned {
		return
	}
	fc.havocAll(fc.cur)
	fc.noteHavocAll()
	fc.assumptions["after a go statement, the goroutine's writes become visible only at later channel operations and calls of the spawning function (race freedom)"] = true
}

func (fc *FnCtx) send(x *ssa.Send) {
	fc.syncPoint()
	ch := fc.val(x.Chan)
	arr := fc.heapGet(fc.cur, "ghost:closed", fieldSort(sBool))
	fc.safe("send", not(sx("select", arr, ch.T[0])), x.Pos(), func(n ast.Node) bool { _, ok := n.(*ast.SendStmt); return ok })
	if fc.c != nil && fc.c.NonBlocking {
		// a plain send waits for a receiver (or a free slot): not allowed in a function declared nonblocking
		fc.oblige("nonblocking", "send{"+fc.srcText(x.Pos(), func(n ast.Node) bool { _, ok := n.(*ast.SendStmt); return ok })+"}", "false", x.Pos(), nil, "")
	} else {
		fc.assumptions["channel send: only 'not closed' is checked; blocking is not modelled"] = true
	}
}

func (fc *FnCtx) selectInstr(x *ssa.Select) {
	fc.syncPoint()
	// nondeterministic choice among the cases
	tup := x.Type().(*types.Tuple)
	n := len(x.States)
	idx := fc.fresh("select_idx", sBV(64))
	lo := "#x0000000000000000"
	if !x.Blocking {
		lo = "#xffffffffffffffff" // -1: default
	} else if fc.c != nil && fc.c.NonBlocking {
		fc.oblige("nonblocking", "select_without_default", "false", x.Pos(), nil, "")
	}
	fc.assume(and(sx("bvsle", lo, idx), sx("bvslt", idx, bvLit(uint64(n), 64))))
	out := V{Ty: x.Type(), T: []string{idx, fc.fresh("select_recvok", sBool)}}
	for i := 2; i < tup.Len(); i++ {
		rv := fc.freshWF(tup.At(i).Type(), "select_recv", fc.cur)
		out.T = append(out.T, rv.T...)
	}
	arr := fc.heapGet(fc.cur, "ghost:closed", fieldSort(sBool))
	for i, s := range x.States {
		if s.Dir == types.RecvOnly {
			fc.countRecv(fc.val(s.Chan).T[0], eq(idx, bvLit(uint64(i), 64)))
		}
		if s.Dir == types.SendOnly {
			ch := fc.val(s.Chan)
			sel := eq(idx, bvLit(uint64(i), 64))
			_ = sel
			// a send case on a closed channel panics when it is selected (or even evaluated)
			fc.safe("send", not(sx("select", arr, ch.T[0])), s.Pos, func(n ast.Node) bool { _, ok := n.(*ast.SendStmt); return ok })
		}
	}
	fc.assumptions["select is a nondeterministic choice among its cases; received values are arbitrary (sequential fragment)"] = true
	fc.vals[x] = out
}

// countRecv: ghost:recvs[ch] counts the receives this goroutine completed on ch (spec: recvs(ch)).
func (fc *FnCtx) countRecv(ch, cond string) {
	srt := fieldSort(sBV(64))
	if !fc.dry {
		for _, fs := range fc.activeFrames() {
			goal := implies(cond, fc.frameGoalF(fs, "ghost:recvs", ch, ""))
			if goal != "true" {
				fc.oblige("frame", fs.label+"receive{recvs}", goal, fc.fn.Pos(), fc.cprops(), fs.text)
			}
		}
	}
	arr := fc.heapGet(fc.cur, "ghost:recvs", srt)
	cur := sx("select", arr, ch)
	fc.heapSet(fc.cur, "ghost:recvs", srt, sx("store", arr, ch, ite(cond, add64(cur, bvLit(1, 64)), cur)))
	fc.noteWrite("ghost:recvs")
}

// ---- return ------------------------------------------------------------------

func (fc *FnCtx) ret(x *ssa.Return) {
	fc.outState[fc.curBlock] = fc.cur
	fc.retCount++
	if fc.dry {
		return
	}
	var results []V
	for _, r := range x.Results {
		results = append(results, fc.val(r))
	}
	fc.checkPosts(results, x.Pos(), fmt.Sprintf("@ret%d", fc.retCount))
}

func (fc *FnCtx) checkPosts(results []V, pos token.Pos, site string) {
	if fc.c == nil {
		// cover: the return is reachable
		return
	}
	sig := fc.fn.Signature
	check := func(c *Contract, kind string) {
		env := fc.newEnv(fc.cur, fc.entry)
		if c != fc.c {
			// positional binding of the other contract's names
			env.vars = map[string]V{}
			all := fc.fn.Params
			names := c.Params
			if c.Kind == "functype" {
				names = names[1:] // the first name denotes the function value itself
			}
			for i, n := range names {
				if i < len(all) {
					env.vars[n] = fc.vals[all[i]]
				}
			}
		}
		_ = 0
		for i, n := range c.Results {
			if i < len(results) {
				rv := results[i]
				rv = fc.coerce(rv, sig.Results().At(i).Type())
				rv.Ty = sig.Results().At(i).Type()
				env.vars[n] = rv
			}
		}
		if c == fc.c {
			for _, gs := range c.GhostSets {
				// ghost assignment: only ghost keys can be named, so no real state is touched
				ts := env.resolveTargetIn(gs[0], fc.cur)
				vx, err := ParseExpr(gs[1])
				if err != nil {
					panic(specErr("ghostset: %v", err))
				}
				val := env.eval(vx)
				for _, mt := range ts {
					if mt.kind != "ghost" {
						panic(specErr("ghostset target %s is not a ghost", gs[0]))
					}
					if val.C != nil {
						val = env.constTo(val, types.Typ[types.Int])
					}
					for k, key := range mt.keys {
						srt := fieldSort(mt.sorts[k])
						arr := fc.heapGet(fc.cur, key, srt)
						fc.heapSet(fc.cur, key, srt, sx("store", arr, mt.ref, val.T[k]))
						fc.noteWrite(key)
					}
				}
			}
			for _, hc := range c.PostHints {
				fc.assume(env.evalBool(hc.E))
			}
		}
		pre := "true"
		if c != fc.c {
			// behavioural subtyping: the other contract's ensures must hold whenever its requires held on entry
			envPre := fc.newEnv(fc.entry, fc.entry)
			envPre.vars = env.vars
			var ps []string
			for _, r := range c.Requires {
				ps = append(ps, envPre.evalBool(r.E))
			}
			pre = and(ps...)
		}
		for _, en := range c.Ensures {
			props := en.Props
			if len(props) == 0 {
				props = c.Props
			}
			lbl := en.Label
			if c != fc.c {
				lbl = c.Name + "." + lbl
			}
			fc.oblige(kind, lbl, implies(pre, env.evalBool(en.E)), pos, props, en.Text)
		}
	}
	check(fc.c, "post")
	for _, impl := range fc.c.Impl {
		var ic *Contract
		if c, ok := fc.e.specs.Contracts["functype:"+impl]; ok {
			ic = c
		} else if c, ok := fc.e.specs.Contracts["iface:"+impl]; ok {
			ic = c
		}
		if ic == nil {
			panic(unsupported("implements unknown contract " + impl))
		}
		check(ic, "impl")
	}
	fc.retReach = append(fc.retReach, fc.reach)
}

func (fc *FnCtx) runDefers() {
	for i := len(fc.defers) - 1; i >= 0; i-- {
		d := fc.defers[i]
		// the deferred call runs if its Defer instruction was executed
		if d.cond == "true" || d.instr.Block().Dominates(fc.curBlock) {
			fc.call(d.instr, d.instr.Common(), d.instr.Pos())
			continue
		}
		// conditional defer: apply on a copy and merge
		before := fc.cur.clone()
		fc.call(d.instr, d.instr.Common(), d.instr.Pos())
		fc.cur = fc.mergeStates([]string{d.cond, "true"}, []*State{fc.cur, before})
	}
}

// watchStruct adds the scalar fields reachable from a pointer parameter (two levels) to the model watch list.
func (fc *FnCtx) watchStruct(name string, v V, st *State, depth int) {
	pt, ok := v.Ty.Underlying().(*types.Pointer)
	if !ok || depth > 1 {
		return
	}
	stt, ok := pt.Elem().Underlying().(*types.Struct)
	if !ok || fc.e.isOpaqueStruct(pt.Elem()) || isTimeStruct(pt.Elem()) {
		return
	}
	loc := fc.locOf(v)
	for i := 0; i < stt.NumFields(); i++ {
		f := stt.Field(i)
		fl := &Loc{Kind: locField, S: loc.S, Pre: loc.Pre + fmt.Sprintf("f%d_", i), Ref: loc.Ref, Ty: f.Type()}
		switch u := f.Type().Underlying().(type) {
		case *types.Basic:
			if u.Info()&(types.IsInteger|types.IsBoolean) != 0 {
				fv := fc.load(st, fl)
				fc.watchBase = append(fc.watchBase, watch{name + "." + f.Name(), fv.T[0]})
			}
		case *types.Pointer:
			fv := fc.load(st, fl)
			fc.watchBase = append(fc.watchBase, watch{name + "." + f.Name(), fv.T[0]})
			fc.watchStruct(name+"."+f.Name(), fv, st, depth+1)
		}
	}
}

// tierActive: clauses tagged "thorough" are neither checked nor assumed in the quick tier.
func (fc *FnCtx) tierActive(props []string) bool {
	return !hasProp(props, "thorough") || fc.e.tier == "thorough"
}
