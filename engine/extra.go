package main

// Checks that are not weakest-precondition obligations of one function:
// table checks over package initialisers and finite enumerations. They are
// decided here (exhaustively, in Go) and reported as obligations of kind
// "table"; the evidence says so (backend "enumeration").

import (
	"encoding/xml"
	"fmt"
	"go/ast"
	"go/constant"
	"go/token"
	"go/types"
	"regexp"
	"sort"
	"strconv"
	"strings"

	"golang.org/x/tools/go/ssa"
)

type extraResult struct {
	obls        []*Obl
	errors      []string
	assumptions []string
	samples     []interface{}
	coverage    map[string]interface{}
}

func (e *Engine) directObl(name string, props []string, ok bool, detail string) *Obl {
	o := &Obl{Fn: strings.SplitN(name, "#", 2)[0], Name: name, Kind: "table", Label: name, Props: props, Direct: true, Contract: detail}
	if ok {
		o.Res = SolverResult{Status: "unsat", Solver: "enumeration", Output: detail}
	} else {
		o.Res = SolverResult{Status: "sat", Solver: "enumeration", Output: detail}
	}
	return o
}

type initEntry struct {
	key  string // constant key, printed
	val  string // constant value or function name
	isFn bool
	fn   *ssa.Function
}

// readInitMap reconstructs a package-level map literal from the package initialiser's SSA.
func (e *Engine) readInitMap(pkgPath, global string) ([]initEntry, error) {
	sp := e.spkgs[pkgPath]
	if sp == nil {
		return nil, fmt.Errorf("package %s not loaded", pkgPath)
	}
	init := sp.Func("init")
	if init == nil {
		return nil, fmt.Errorf("no init in %s", pkgPath)
	}
	var mapVal ssa.Value
	for _, b := range init.Blocks {
		for _, in := range b.Instrs {
			if st, ok := in.(*ssa.Store); ok {
				if g, ok := st.Addr.(*ssa.Global); ok && g.Name() == global {
					mapVal = st.Val
				}
			}
		}
	}
	if mapVal == nil {
		return nil, fmt.Errorf("initialiser of %s.%s not found", pkgPath, global)
	}
	var out []initEntry
	for _, b := range init.Blocks {
		for _, in := range b.Instrs {
			mu, ok := in.(*ssa.MapUpdate)
			if !ok || mu.Map != mapVal {
				continue
			}
			ent := initEntry{}
			kc, ok := mu.Key.(*ssa.Const)
			if !ok {
				return nil, fmt.Errorf("%s.%s: non-constant key %s", pkgPath, global, mu.Key)
			}
			if kc.Value.Kind() == constant.String {
				ent.key = constant.StringVal(kc.Value)
			} else {
				ent.key = kc.Value.ExactString()
			}
			v := mu.Value
			if ct, ok := v.(*ssa.ChangeType); ok {
				v = ct.X
			}
			switch x := v.(type) {
			case *ssa.Const:
				if x.Value == nil {
					ent.val = "nil"
				} else {
					ent.val = x.Value.ExactString()
				}
			case *ssa.Function:
				ent.val = e.canon(x)
				ent.isFn = true
				ent.fn = x
			default:
				ent.val = "?" + v.String()
			}
			out = append(out, ent)
		}
	}
	return out, nil
}

type xmlDict struct {
	Apps []struct {
		ID       string `xml:"id,attr"`
		Name     string `xml:"name,attr"`
		Commands []struct {
			Code  string `xml:"code,attr"`
			Name  string `xml:"name,attr"`
			Short string `xml:"short,attr"`
		} `xml:"command"`
		AVPs []struct {
			Name string `xml:"name,attr"`
			Code string `xml:"code,attr"`
			Data struct {
				Type string `xml:"type,attr"`
			} `xml:"data"`
		} `xml:"avp"`
	} `xml:"application"`
}

var idRe = regexp.MustCompile(`-Id([-"s]|$)`)

func mangleAVP(name string) string {
	// autogen.sh: s/-Id\([-"s]\)/-ID\1/g ; s/-//g   (the name is followed by a quote in the XML)
	n := idRe.ReplaceAllString(name, "-ID$1")
	return strings.ReplaceAll(n, "-", "")
}

func (e *Engine) embeddedDictionaries() (map[string]string, error) {
	out := map[string]string{}
	for _, p := range e.pkgs {
		if p.PkgPath != repoModule+"/diam/dict" {
			continue
		}
		for _, f := range p.Syntax {
			for _, d := range f.Decls {
				gd, ok := d.(*ast.GenDecl)
				if !ok || gd.Tok != token.VAR {
					continue
				}
				for _, sp := range gd.Specs {
					vs := sp.(*ast.ValueSpec)
					for i, n := range vs.Names {
						if !strings.HasSuffix(n.Name, "XML") || i >= len(vs.Values) {
							continue
						}
						if bl, ok := vs.Values[i].(*ast.BasicLit); ok && bl.Kind == token.STRING {
							s, err := strconv.Unquote(bl.Value)
							if err == nil {
								out[n.Name] = s
							}
						}
					}
				}
			}
		}
	}
	if len(out) == 0 {
		return nil, fmt.Errorf("no embedded dictionaries found in package dict")
	}
	return out, nil
}

func constInt(scope *types.Scope, name string) (string, bool) {
	o := scope.Lookup(name)
	c, ok := o.(*types.Const)
	if !ok {
		return "", false
	}
	return c.Val().ExactString(), true
}

func (e *Engine) extraChecks(prop, tier string) *extraResult {
	r := &extraResult{coverage: map[string]interface{}{}}
	e.boundedChecks(prop, r)
	if prop != "C17" && prop != "C04" && prop != "C03" {
		return r
	}
	dtPath := repoModule + "/diam/datatype"
	avail, err1 := e.readInitMap(dtPath, "Available")
	dec, err2 := e.readInitMap(dtPath, "Decoder")
	if err1 != nil || err2 != nil {
		r.errors = append(r.errors, fmt.Sprintf("datatype.init#table: %v %v", err1, err2))
		return r
	}
	decByID := map[string]initEntry{}
	for _, d := range dec {
		decByID[d.key] = d
	}
	if prop == "C17" {
		// every data type name a dictionary may declare can be decoded
		for _, a := range avail {
			_, ok := decByID[a.val]
			r.obls = append(r.obls, e.directObl("datatype.init#table.decoder_covers_available{"+a.key+"}", []string{"C17"}, ok,
				fmt.Sprintf("Available[%q] = %s must be a key of Decoder", a.key, a.val)))
		}
	}
	// the function-type contract of DecoderFunc is assumed at f(b) in datatype.Decode: every table entry must be a
	// function that is verified against it
	for _, d := range dec {
		ok := d.isFn
		detail := fmt.Sprintf("Decoder[%s] = %s", d.key, d.val)
		if ok {
			c := e.specs.Contracts[d.val]
			ok = c != nil && hasProp(c.Impl, "datatype.DecoderFunc")
			if !ok {
				detail += " has no contract that implements datatype.DecoderFunc"
			}
		} else {
			detail += " is not a function constant"
		}
		r.obls = append(r.obls, e.directObl("datatype.init#table.decoder_entry_under_contract{"+d.key+"}", []string{"C17", "C04", "C03"}, ok, detail))
	}
	if prop != "C17" {
		return r
	}
	// parent application table (dict.parentAppIds): the literal the lookup contracts assume, and acyclic
	par, err := e.readInitMap(repoModule+"/diam/dict", "parentAppIds")
	if err != nil {
		r.errors = append(r.errors, "dict.init#table.parent_table: "+err.Error())
	} else {
		want := map[string]string{"16777251": "4", "16777238": "4", "4": "1"}
		ok := len(par) == len(want)
		pm := map[string]string{}
		for _, p := range par {
			pm[p.key] = p.val
			if want[p.key] != p.val {
				ok = false
			}
		}
		r.obls = append(r.obls, e.directObl("dict.init#table.parent_table_is_the_assumed_literal", []string{"C17"}, ok, fmt.Sprintf("parentAppIds = %v, contracts assume %v", pm, want)))
		acyclic := true
		for k := range pm {
			seen := map[string]bool{}
			for cur := k; ; {
				if seen[cur] {
					acyclic = false
					break
				}
				seen[cur] = true
				nx, ok := pm[cur]
				if !ok {
					break
				}
				cur = nx
			}
		}
		r.obls = append(r.obls, e.directObl("dict.init#table.parent_chain_acyclic", []string{"C17"}, acyclic, fmt.Sprintf("%v", pm)))
	}
	// "loading further dictionaries never makes a previously resolvable AVP, command or application id unresolvable":
	// decided structurally over the SSA of the whole repository - no function deletes from a map of one of the five index
	// types, clears one, or stores a map into an index field of a Parser, except the once-only initialisation closure of
	// Load. Every other modification is a map update (insert or overwrite of one key), so the key set of every index only
	// grows once the first Load has run.
	{
		dsp := e.spkgs[repoModule+"/diam/dict"]
		var bad []string
		idxField := map[string]bool{"appcode": true, "apptype": true, "avpname": true, "avpcode": true, "command": true}
		idxTypes := map[string]bool{}
		if dsp != nil {
			if pt := dsp.Pkg.Scope().Lookup("Parser"); pt != nil {
				if st, ok := pt.Type().Underlying().(*types.Struct); ok {
					for i := 0; i < st.NumFields(); i++ {
						if idxField[st.Field(i).Name()] {
							idxTypes[st.Field(i).Type().String()] = true
						}
					}
				}
			}
		}
		if len(idxTypes) != 5 {
			bad = append(bad, fmt.Sprintf("expected five index fields in dict.Parser, found %d", len(idxTypes)))
		}
		for fn := range e.allFunctions() {
			if fn.Pkg == nil || !e.isRepoPkg(fn.Pkg.Pkg.Path()) || strings.HasSuffix(e.prog.Fset.Position(fn.Pos()).Filename, "_test.go") {
				continue
			}
			name := e.canon(fn)
			for _, b := range fn.Blocks {
				for _, in := range b.Instrs {
					switch x := in.(type) {
					case *ssa.Call:
						if bi, ok := x.Call.Value.(*ssa.Builtin); ok && (bi.Name() == "delete" || bi.Name() == "clear") && len(x.Call.Args) > 0 {
							if idxTypes[x.Call.Args[0].Type().String()] {
								bad = append(bad, name+": "+bi.Name()+" on an index map")
							}
						}
					case *ssa.Store:
						fa, ok := x.Addr.(*ssa.FieldAddr)
						if !ok {
							continue
						}
						pt, ok := fa.X.Type().Underlying().(*types.Pointer)
						if !ok || pt.Elem().String() != repoModule+"/diam/dict.Parser" {
							continue
						}
						st := pt.Elem().Underlying().(*types.Struct)
						if idxField[st.Field(fa.Field).Name()] && name != "(*dict.Parser).Load$1" {
							bad = append(bad, name+": stores a map into Parser."+st.Field(fa.Field).Name())
						}
					}
				}
			}
		}
		sort.Strings(bad)
		r.obls = append(r.obls, e.directObl("dict#table.index_entries_are_never_removed", []string{"C17"}, len(bad) == 0,
			fmt.Sprintf("no delete / clear on an index map and no store into an index field of dict.Parser outside (*dict.Parser).Load$1; violations: %v", bad)))
	}
	// exported constants equal the codes in the embedded dictionaries
	dicts, err := e.embeddedDictionaries()
	if err != nil {
		r.errors = append(r.errors, "dict.default#table.constants: "+err.Error())
		return r
	}
	avpScope := e.byName["avp"].Scope()
	diamScope := e.byName["diam"].Scope()
	var names []string
	for n := range dicts {
		names = append(names, n)
	}
	sort.Strings(names)
	total := 0
	avpCodes := map[string]map[string]bool{} // mangled name -> codes found in the dictionaries
	cmdCodes := map[string]map[string]bool{}
	appIDs := map[string]map[string]bool{}
	add := func(m map[string]map[string]bool, k, v string) {
		if m[k] == nil {
			m[k] = map[string]bool{}
		}
		m[k][v] = true
	}
	for _, n := range names {
		var xd xmlDict
		if err := xml.Unmarshal([]byte(dicts[n]), &xd); err != nil {
			r.obls = append(r.obls, e.directObl("dict.default#table.parses{"+n+"}", []string{"C17"}, false, err.Error()))
			continue
		}
		var badType []string
		for _, app := range xd.Apps {
			total++
			add(appIDs, strings.ToUpper(strings.ReplaceAll(app.Name, " ", "_"))+"_APP_ID", app.ID)
			for _, c := range app.Commands {
				total++
				add(cmdCodes, strings.ReplaceAll(c.Name, "-", ""), c.Code)
			}
			for _, a := range app.AVPs {
				total++
				add(avpCodes, mangleAVP(a.Name), a.Code)
				found := false
				for _, av := range avail {
					if av.key == a.Data.Type {
						found = true
					}
				}
				if !found {
					badType = append(badType, a.Name+":"+a.Data.Type)
				}
			}
		}
		r.obls = append(r.obls, e.directObl("dict.default#table.type_names_available{"+n+"}", []string{"C17"}, len(badType) == 0, fmt.Sprintf("type names not in datatype.Available: %v", first(badType, 5))))
	}
	// every exported constant is the code the embedded dictionaries give to that name
	checkScope := func(label string, scope *types.Scope, codes map[string]map[string]bool, filter func(string, *types.Const) bool) {
		var bad []string
		n := 0
		for _, name := range scope.Names() {
			c, ok := scope.Lookup(name).(*types.Const)
			if !ok || !c.Exported() || c.Val().Kind() != constant.Int || !filter(name, c) {
				continue
			}
			n++
			v := c.Val().ExactString()
			cs := codes[name]
			if cs == nil {
				bad = append(bad, fmt.Sprintf("%s=%s: no dictionary entry of that name", name, v))
			} else if !cs[v] || len(cs) != 1 {
				var l []string
				for k := range cs {
					l = append(l, k)
				}
				sort.Strings(l)
				bad = append(bad, fmt.Sprintf("%s=%s: dictionaries say %v", name, v, l))
			}
		}
		r.obls = append(r.obls, e.directObl("dict.default#table."+label, []string{"C17"}, len(bad) == 0, fmt.Sprintf("%d constants; mismatches: %v", n, first(bad, 6))))
		total += n
	}
	checkScope("avp_constants_equal_dictionary_codes", avpScope, avpCodes, func(n string, c *types.Const) bool {
		return !strings.HasSuffix(n, "bit") && fileOf(e, c) == "codes.go"
	})
	checkScope("command_constants_equal_dictionary_codes", diamScope, cmdCodes, func(n string, c *types.Const) bool { return fileOf(e, c) == "commands.go" })
	checkScope("application_constants_equal_dictionary_ids", diamScope, appIDs, func(n string, c *types.Const) bool { return fileOf(e, c) == "applications.go" })
	r.coverage["exhaustive"] = true
	r.coverage["enumerated_dictionary_entries"] = total
	r.samples = append(r.samples, map[string]interface{}{"table": "datatype.Available", "entries": len(avail)}, map[string]interface{}{"table": "datatype.Decoder", "entries": len(dec)})
	r.assumptions = append(r.assumptions, "table checks read the package initialisers' SSA (map literals with constant keys) and the XML string literals of dict/default.go; encoding/xml is trusted to parse them as dict.Load would")
	return r
}

func first(s []string, n int) []string {
	if len(s) > n {
		return append(s[:n:n], fmt.Sprintf("... %d more", len(s)-n))
	}
	return s
}

func fileOf(e *Engine, o types.Object) string {
	p := e.prog.Fset.Position(o.Pos()).Filename
	if i := strings.LastIndex(p, "/"); i >= 0 {
		return p[i+1:]
	}
	return p
}
