package main

// Checks that are not weakest-precondition obligations of one function:
// table checks over package initialisers, finite enumerations, bounded stand-ins.

type extraResult struct {
	obls        []*Obl
	errors      []string
	assumptions []string
	samples     []interface{}
	coverage    map[string]interface{}
}

func (e *Engine) extraChecks(prop, tier string) *extraResult {
	return &extraResult{coverage: map[string]interface{}{}}
}
