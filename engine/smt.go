package main

// SMT-LIB text helpers and the solver racer.

import (
	"bytes"
	"context"
	"fmt"
	"os"
	"os/exec"
	"path/filepath"
	"strings"
	"sync"
	"time"
)

const (
	sInt  = "Int"
	sBool = "Bool"
)

func sBV(w int) string { return fmt.Sprintf("(_ BitVec %d)", w) }

func bvWidth(sort string) int {
	var w int
	if _, err := fmt.Sscanf(sort, "(_ BitVec %d)", &w); err == nil {
		return w
	}
	return 0
}

func bvLit(v uint64, w int) string {
	if w%4 == 0 {
		return fmt.Sprintf("#x%0*x", w/4, v&mask(w))
	}
	return fmt.Sprintf("(_ bv%d %d)", v&mask(w), w)
}

func mask(w int) uint64 {
	if w >= 64 {
		return ^uint64(0)
	}
	return (uint64(1) << uint(w)) - 1
}

func sx(op string, args ...string) string {
	return "(" + op + " " + strings.Join(args, " ") + ")"
}

func and(args ...string) string {
	var out []string
	for _, a := range args {
		if a == "true" {
			continue
		}
		if a == "false" {
			return "false"
		}
		out = append(out, a)
	}
	switch len(out) {
	case 0:
		return "true"
	case 1:
		return out[0]
	}
	return sx("and", out...)
}

func or(args ...string) string {
	var out []string
	for _, a := range args {
		if a == "false" {
			continue
		}
		if a == "true" {
			return "true"
		}
		out = append(out, a)
	}
	switch len(out) {
	case 0:
		return "false"
	case 1:
		return out[0]
	}
	return sx("or", out...)
}

func not(a string) string {
	switch a {
	case "true":
		return "false"
	case "false":
		return "true"
	}
	if strings.HasPrefix(a, "(not ") && balanced(a[5:len(a)-1]) {
		return a[5 : len(a)-1]
	}
	return sx("not", a)
}

func balanced(s string) bool {
	d := 0
	for _, c := range s {
		if c == '(' {
			d++
		} else if c == ')' {
			d--
			if d < 0 {
				return false
			}
		}
	}
	return d == 0
}

func implies(a, b string) string {
	if a == "true" {
		return b
	}
	if b == "true" || a == "false" {
		return "true"
	}
	return sx("=>", a, b)
}

func ite(c, a, b string) string {
	if c == "true" || a == b {
		return a
	}
	if c == "false" {
		return b
	}
	return sx("ite", c, a, b)
}

func eq(a, b string) string {
	if a == b {
		return "true"
	}
	return sx("=", a, b)
}

// ---------------------------------------------------------------------------

type SolverResult struct {
	Status  string // unsat | sat | unknown | timeout | error
	Solver  string
	Secs    float64
	Output  string
	Values  map[string]string
	Ordered []string // values of the get-value terms, in request order
}

type solverSpec struct {
	name string
	argv func(file string, timeoutS int) []string
}

var solvers = []solverSpec{
	{"z3-new", func(f string, t int) []string { return []string{"z3-new", fmt.Sprintf("-T:%d", t), f} }},
	{"z3-4.8.12", func(f string, t int) []string { return []string{"/usr/bin/z3", fmt.Sprintf("-T:%d", t), f} }},
	{"cvc5", func(f string, t int) []string {
		return []string{"cvc5", "--incremental", fmt.Sprintf("--tlimit=%d", t*1000), f}
	}},
}

// at most this many solver processes run at once (oversubscription turns proofs into timeouts)
var procSem = make(chan struct{}, 14)

// runSolvers races the solvers on one SMT file. First definite answer wins.
func runSolvers(file string, timeoutS int, only []string) SolverResult {
	ctx, cancel := context.WithCancel(context.Background())
	defer cancel()
	type res struct {
		r SolverResult
	}
	ch := make(chan SolverResult, len(solvers))
	n := 0
	for _, s := range solvers {
		if len(only) > 0 {
			ok := false
			for _, o := range only {
				if o == s.name {
					ok = true
				}
			}
			if !ok {
				continue
			}
		}
		n++
		go func(s solverSpec) {
			procSem <- struct{}{}
			defer func() { <-procSem }()
			if ctx.Err() != nil {
				ch <- SolverResult{Solver: s.name, Status: "timeout"}
				return
			}
			t0 := time.Now()
			argv := s.argv(file, timeoutS)
			pctx, pcancel := context.WithTimeout(ctx, time.Duration(timeoutS+2)*time.Second)
			defer pcancel()
			cmd := exec.CommandContext(pctx, argv[0], argv[1:]...)
			var out bytes.Buffer
			cmd.Stdout = &out
			cmd.Stderr = &out
			cmd.Run()
			r := SolverResult{Solver: s.name, Secs: time.Since(t0).Seconds(), Output: out.String()}
			first := strings.TrimSpace(strings.SplitN(strings.TrimSpace(out.String()), "\n", 2)[0])
			switch first {
			case "unsat", "sat", "unknown":
				r.Status = first
			case "timeout":
				r.Status = "timeout"
			default:
				if pctx.Err() != nil {
					r.Status = "timeout"
				} else {
					r.Status = "error"
				}
			}
			ch <- r
		}(s)
	}
	var last SolverResult
	last.Status = "unknown"
	var outs []string
	for i := 0; i < n; i++ {
		r := <-ch
		outs = append(outs, r.Solver+": "+r.Status)
		if r.Status == "unsat" || r.Status == "sat" {
			cancel()
			if r.Status == "sat" {
				r.Values, r.Ordered = parseValues(r.Output)
			}
			return r
		}
		if r.Status == "error" {
			outs[len(outs)-1] += " " + firstLines(r.Output, 3)
		}
		if last.Status == "unknown" || r.Status == "unknown" {
			if r.Status != "error" || last.Solver == "" {
				last = r
			}
		}
	}
	last.Output = strings.Join(outs, "; ") + "\n" + last.Output
	return last
}

func firstLines(s string, n int) string {
	l := strings.Split(strings.TrimSpace(s), "\n")
	if len(l) > n {
		l = l[:n]
	}
	return strings.Join(l, " | ")
}

// parseValues parses the output of (get-value (a b c)) : ((a #x01) (b 5) ...)
func parseValues(out string) (map[string]string, []string) {
	m := map[string]string{}
	var ord []string
	i := strings.Index(out, "((")
	if i < 0 {
		return m, nil
	}
	s := out[i:]
	// tokenise s-expressions at depth 2
	depth := 0
	start := -1
	for j := 0; j < len(s); j++ {
		switch s[j] {
		case '(':
			depth++
			if depth == 2 {
				start = j
			}
		case ')':
			if depth == 2 && start >= 0 {
				pair := s[start+1 : j]
				k, v := splitPair(pair)
				if k != "" {
					m[k] = v
					ord = append(ord, v)
				}
				start = -1
			}
			depth--
		}
	}
	return m, ord
}

func splitPair(p string) (string, string) {
	p = strings.TrimSpace(p)
	if p == "" {
		return "", ""
	}
	if p[0] == '(' {
		d := 0
		for i := 0; i < len(p); i++ {
			if p[i] == '(' {
				d++
			} else if p[i] == ')' {
				d--
				if d == 0 {
					return strings.TrimSpace(p[:i+1]), strings.TrimSpace(p[i+1:])
				}
			}
		}
		return "", ""
	}
	i := strings.IndexAny(p, " \t\n")
	if i < 0 {
		return p, ""
	}
	return p[:i], strings.TrimSpace(p[i:])
}

// smtValToUint parses #x.., #b.., (_ bvN w), decimal, (- N).
func smtValToInt(v string) (int64, bool) {
	v = strings.TrimSpace(v)
	if strings.HasPrefix(v, "#x") {
		var u uint64
		if _, err := fmt.Sscanf(v[2:], "%x", &u); err == nil {
			return int64(u), true
		}
	}
	if strings.HasPrefix(v, "#b") {
		var u uint64
		for _, c := range v[2:] {
			u = u<<1 | uint64(c-'0')
		}
		return int64(u), true
	}
	if strings.HasPrefix(v, "(_ bv") {
		var u uint64
		var w int
		if _, err := fmt.Sscanf(v, "(_ bv%d %d)", &u, &w); err == nil {
			return int64(u), true
		}
	}
	if strings.HasPrefix(v, "(- ") {
		var n int64
		if _, err := fmt.Sscanf(v, "(- %d)", &n); err == nil {
			return -n, true
		}
	}
	var n int64
	if _, err := fmt.Sscanf(v, "%d", &n); err == nil {
		return n, true
	}
	if v == "true" {
		return 1, true
	}
	if v == "false" {
		return 0, true
	}
	return 0, false
}

// ---------------------------------------------------------------------------

var scratchMu sync.Mutex
var scratchDir string

func scratch() string {
	scratchMu.Lock()
	defer scratchMu.Unlock()
	if scratchDir == "" {
		d, err := os.MkdirTemp("", "govc-")
		if err != nil {
			panic(err)
		}
		scratchDir = d
	}
	return scratchDir
}

func cleanupScratch() {
	scratchMu.Lock()
	defer scratchMu.Unlock()
	if scratchDir != "" {
		os.RemoveAll(scratchDir)
		scratchDir = ""
	}
}

func writeScratch(name, content string) string {
	p := filepath.Join(scratch(), name)
	os.WriteFile(p, []byte(content), 0o644)
	return p
}

// constant folding helpers for 64-bit literals
func lit64(t string) (uint64, bool) {
	if len(t) == 18 && strings.HasPrefix(t, "#x") {
		var u uint64
		if _, err := fmt.Sscanf(t[2:], "%x", &u); err == nil {
			return u, true
		}
	}
	return 0, false
}

func bvadd64(a, b string) string {
	x, ok1 := lit64(a)
	y, ok2 := lit64(b)
	if ok1 && ok2 {
		return bvLit(x+y, 64)
	}
	if ok1 && x == 0 {
		return b
	}
	if ok2 && y == 0 {
		return a
	}
	return sx("bvadd", a, b)
}

func bvsub64(a, b string) string {
	x, ok1 := lit64(a)
	y, ok2 := lit64(b)
	if ok1 && ok2 {
		return bvLit(x-y, 64)
	}
	if ok2 && y == 0 {
		return a
	}
	return sx("bvsub", a, b)
}
