package main

import (
	"go/token"
	"fmt"
	"go/types"
	"os"
	"path/filepath"
	"sort"
	"strings"

	"golang.org/x/tools/go/packages"
	"golang.org/x/tools/go/ssa"
	"golang.org/x/tools/go/ssa/ssautil"
)

const repoModule = "github.com/fiorix/go-diameter/v4"

type Engine struct {
	repo            string
	verif           string
	prog            *ssa.Program
	pkgs            []*packages.Package
	spkgs           map[string]*ssa.Package // by import path
	byName          map[string]*types.Package
	specs           *Specs
	tcache          map[string]*typeInfo
	tags            map[string]int // dynamic type -> tag
	tagList         []string
	tagType         map[string]types.Type
	funcs           map[string]*ssa.Function // canonical name -> function
	strLits         map[string]int
	timeout         int
	tier            string
	verbose         bool
	pkgRepl         *strings.Replacer
	assumptionsUsed map[string]bool
	funcIDs         map[*ssa.Function]int
	known           []*KnownFinding
	replayOracles   map[string]string
	boundedResults  []string // bounded stand-ins of this run: listed in the evidence, never counted as discharged
	extErrGlobals   map[string]bool // error variables of other packages treated as constants (assumption)
	errGlobals      map[string]int // "glob:pkg.Var" of error variables initialised once by errors.New and never written again
	errGlobalNames  []string
	initOnly        map[string]bool // heap-key prefixes ("pkg.Type.f<i>_") of unexported fields written only on objects the writing function has just allocated
}

func (e *Engine) isRepoPkg(path string) bool {
	return strings.HasPrefix(path, repoModule)
}

func loadEngine(repo, verif string) (*Engine, error) {
	e := &Engine{repo: repo, verif: verif, spkgs: map[string]*ssa.Package{}, byName: map[string]*types.Package{},
		tcache: map[string]*typeInfo{}, tags: map[string]int{}, tagType: map[string]types.Type{}, funcs: map[string]*ssa.Function{},
		strLits: map[string]int{}, assumptionsUsed: map[string]bool{}}
	cfg := &packages.Config{
		Mode:       packages.LoadAllSyntax,
		Dir:        repo,
		BuildFlags: []string{"-tags=verif"},
		Env:        append(os.Environ(), "GOFLAGS=-mod=mod", "GOPROXY=off", "GOSUMDB=off", "GOTOOLCHAIN=local"),
	}
	pats := []string{"./diam", "./diam/datatype", "./diam/dict", "./diam/avp", "./diam/sm", "./diam/sm/smparser", "./diam/sm/smpeer"}
	if x := os.Getenv("VERIF_EXTRA_PKGS"); x != "" {
		pats = append(pats, strings.Fields(x)...)
	}
	pkgs, err := packages.Load(cfg, pats...)
	if err != nil {
		return nil, err
	}
	nerr := 0
	packages.Visit(pkgs, nil, func(p *packages.Package) {
		for _, er := range p.Errors {
			fmt.Fprintln(os.Stderr, "load error:", er)
			nerr++
		}
	})
	if nerr > 0 {
		return nil, fmt.Errorf("%d load errors: /repo does not type-check with -tags verif", nerr)
	}
	prog, spkgs := ssautil.AllPackages(pkgs, ssa.GlobalDebug|ssa.BareInits)
	prog.Build()
	e.prog = prog
	e.pkgs = pkgs
	var repl []string
	var paths []string
	for _, sp := range prog.AllPackages() {
		paths = append(paths, sp.Pkg.Path())
		e.spkgs[sp.Pkg.Path()] = sp
		if e.isRepoPkg(sp.Pkg.Path()) || e.byName[sp.Pkg.Name()] == nil {
			if old := e.byName[sp.Pkg.Name()]; old == nil || e.isRepoPkg(sp.Pkg.Path()) {
				e.byName[sp.Pkg.Name()] = sp.Pkg
			}
		}
	}
	_ = spkgs
	sort.Slice(paths, func(i, j int) bool { return len(paths[i]) > len(paths[j]) })
	for _, p := range paths {
		if strings.Contains(p, "/") {
			repl = append(repl, p+".", filepath.Base(p)+".")
		}
	}
	e.pkgRepl = strings.NewReplacer(repl...)
	// index functions by canonical name
	for fn := range ssautil.AllFunctions(prog) {
		if fn.Pkg == nil && fn.Parent() == nil && fn.Synthetic != "" {
			continue
		}
		e.funcs[e.canon(fn)] = fn
	}
	e.findErrGlobals()
	e.findInitOnlyFields()
	return e, nil
}

// findErrGlobals: package-level variables of type error whose only write in the loaded program is the
// `var X = errors.New(...)` initialiser and whose address is never taken are constants: non-nil, pairwise distinct
// pointers to errors.errorString.  The scan is over the SSA of every loaded repository function.
func (e *Engine) findErrGlobals() {
	e.errGlobals = map[string]int{}
	cand := map[*ssa.Global]bool{}
	for _, sp := range e.prog.AllPackages() {
		if !e.isRepoPkg(sp.Pkg.Path()) {
			continue
		}
		init := sp.Func("init")
		if init == nil {
			continue
		}
		for _, b := range init.Blocks {
			for _, in := range b.Instrs {
				st, ok := in.(*ssa.Store)
				if !ok {
					continue
				}
				g, ok := st.Addr.(*ssa.Global)
				if !ok || g.Type().(*types.Pointer).Elem().String() != "error" {
					continue
				}
				if c, ok := st.Val.(*ssa.Call); ok {
					if f := c.Call.StaticCallee(); f != nil && f.String() == "errors.New" {
						if _, seen := cand[g]; seen {
							cand[g] = false
						} else {
							cand[g] = true
						}
					}
				}
			}
		}
	}
	for fn := range ssautil.AllFunctions(e.prog) {
		if fn.Pkg == nil || !e.isRepoPkg(fn.Pkg.Pkg.Path()) {
			continue
		}
		isInit := fn.Name() == "init" && fn.Parent() == nil
		for _, b := range fn.Blocks {
			for _, in := range b.Instrs {
				for _, op := range in.Operands(nil) {
					g, ok := (*op).(*ssa.Global)
					if !ok || !cand[g] {
						continue
					}
					switch x := in.(type) {
					case *ssa.UnOp:
						if x.Op == token.MUL {
							continue
						}
					case *ssa.Store:
						if isInit && x.Addr == g {
							if c, ok := x.Val.(*ssa.Call); ok && c.Call.StaticCallee() != nil && c.Call.StaticCallee().String() == "errors.New" {
								continue
							}
						}
					case *ssa.DebugRef:
						continue
					}
					cand[g] = false
				}
			}
		}
	}
	var names []string
	for g, ok := range cand {
		if ok {
			names = append(names, "glob:"+e.pkgRepl.Replace(g.String()))
		}
	}
	// error variables of packages outside the repository (io.EOF, io.ErrUnexpectedEOF, io.ErrShortBuffer, ...) that
	// repository code reads: ASSUMED initialised to distinct non-nil values and never reassigned (nobody assigns to
	// io.EOF); without this a call to unknown code would "reassign" them
	ext := map[string]bool{}
	for fn := range ssautil.AllFunctions(e.prog) {
		if fn.Pkg == nil || !e.isRepoPkg(fn.Pkg.Pkg.Path()) {
			continue
		}
		for _, b := range fn.Blocks {
			for _, in := range b.Instrs {
				for _, op := range in.Operands(nil) {
					g, ok := (*op).(*ssa.Global)
					if !ok || g.Pkg == nil || e.isRepoPkg(g.Pkg.Pkg.Path()) {
						continue
					}
					if pt, ok := g.Type().(*types.Pointer); ok && pt.Elem().String() == "error" {
						ext["glob:"+e.pkgRepl.Replace(g.String())] = true
					}
				}
			}
		}
	}
	for n := range ext {
		names = append(names, n)
	}
	e.extErrGlobals = ext
	sort.Strings(names)
	for i, n := range names {
		e.errGlobals[n] = i
	}
	e.errGlobalNames = names
}

// canon returns the canonical (short-package) name of a function.
func (e *Engine) canon(fn *ssa.Function) string {
	return e.pkgRepl.Replace(fn.String())
}

func (e *Engine) loadSpecs() error {
	e.specs = NewSpecs()
	// shared spec files
	matches, _ := filepath.Glob(filepath.Join(e.verif, "contracts", "*.spec"))
	sort.Strings(matches)
	for _, m := range matches {
		if err := e.specs.ParseSpecFile(m, ""); err != nil {
			return err
		}
	}
	// contract files in the repository
	var files []string
	filepath.Walk(filepath.Join(e.repo, "diam"), func(p string, info os.FileInfo, err error) error {
		if err == nil && !info.IsDir() && filepath.Base(p) == "contracts_verif.go" {
			files = append(files, p)
		}
		return nil
	})
	sort.Strings(files)
	for _, f := range files {
		if err := e.specs.ParseSpecFile(f, "?"); err != nil {
			return err
		}
	}
	e.replayOracles = map[string]string{}
	for _, c := range e.specs.Contracts {
		for lbl, ex := range c.Replay {
			e.replayOracles[c.Name+"#post."+lbl] = ex
		}
	}
	return nil
}

// lookupType resolves "pkg.Name", "Name" (in pkg), "*pkg.Name", "[]byte" ...
func (e *Engine) lookupType(name string, pkg *types.Package) (types.Type, error) {
	if strings.HasPrefix(name, "*") {
		t, err := e.lookupType(name[1:], pkg)
		if err != nil {
			return nil, err
		}
		return types.NewPointer(t), nil
	}
	if strings.HasPrefix(name, "[]") {
		t, err := e.lookupType(name[2:], pkg)
		if err != nil {
			return nil, err
		}
		return types.NewSlice(t), nil
	}
	if i := strings.Index(name, "."); i >= 0 {
		p := e.byName[name[:i]]
		if p == nil {
			return nil, fmt.Errorf("unknown package %q in type %q", name[:i], name)
		}
		o := p.Scope().Lookup(name[i+1:])
		if o == nil {
			return nil, fmt.Errorf("unknown type %q", name)
		}
		return o.Type(), nil
	}
	if o := types.Universe.Lookup(name); o != nil {
		if tn, ok := o.(*types.TypeName); ok {
			return tn.Type(), nil
		}
	}
	if pkg != nil {
		if o := pkg.Scope().Lookup(name); o != nil {
			if tn, ok := o.(*types.TypeName); ok {
				return tn.Type(), nil
			}
		}
	}
	return nil, fmt.Errorf("unknown type %q", name)
}

func (e *Engine) tagOf(t types.Type) int {
	k := e.shortType(t)
	if id, ok := e.tags[k]; ok {
		return id
	}
	id := len(e.tagList) + 1
	e.tags[k] = id
	e.tagList = append(e.tagList, k)
	e.tagType[k] = t
	return id
}

func (e *Engine) errorStringType() types.Type {
	if sp := e.spkgs["errors"]; sp != nil {
		if m, ok := sp.Members["errorString"].(*ssa.Type); ok {
			return m.Type()
		}
	}
	panic(unsupported("errors.errorString not loaded"))
}

// findInitOnlyFields: an unexported field of a repository struct type that is only ever stored to through an object
// the storing function allocated itself (composite literal / new, possibly merged by a phi), and whose address never
// leaves the storing or loading instruction, cannot change once the object has been published. Unknown code (handlers,
// callbacks) therefore leaves such fields as it found them. The scan covers the SSA of every repository function.
func (e *Engine) findInitOnlyFields() {
	type fkey struct {
		t   *types.Named
		idx int
	}
	bad := map[fkey]bool{}
	seen := map[fkey]bool{}
	var isFreshBase func(v ssa.Value, depth int) bool
	isFreshBase = func(v ssa.Value, depth int) bool {
		if depth > 4 {
			return false
		}
		switch x := v.(type) {
		case *ssa.Alloc:
			return true
		case *ssa.Phi:
			for _, ed := range x.Edges {
				if !isFreshBase(ed, depth+1) {
					return false
				}
			}
			return true
		}
		return false
	}
	keyOf := func(fa *ssa.FieldAddr) (fkey, bool) {
		pt, ok := fa.X.Type().Underlying().(*types.Pointer)
		if !ok {
			return fkey{}, false
		}
		n, ok := pt.Elem().(*types.Named)
		if !ok || n.Obj().Pkg() == nil || !e.isRepoPkg(n.Obj().Pkg().Path()) {
			return fkey{}, false
		}
		return fkey{n, fa.Field}, true
	}
	for fn := range ssautil.AllFunctions(e.prog) {
		if fn.Pkg == nil || !e.isRepoPkg(fn.Pkg.Pkg.Path()) {
			continue
		}
		for _, b := range fn.Blocks {
			for _, in := range b.Instrs {
				if st, isStore := in.(*ssa.Store); isStore {
					// a whole-struct store through a pointer (*p = v) rewrites every field of the object
					if pt, ok := st.Addr.Type().Underlying().(*types.Pointer); ok {
						if n, ok := pt.Elem().(*types.Named); ok && n.Obj().Pkg() != nil && e.isRepoPkg(n.Obj().Pkg().Path()) {
							if sst, ok := n.Underlying().(*types.Struct); ok && !isFreshBase(st.Addr, 0) {
								for i := 0; i < sst.NumFields(); i++ {
									bad[fkey{n, i}] = true
								}
							}
						}
					}
				}
				fa, ok := in.(*ssa.FieldAddr)
				if !ok {
					continue
				}
				k, ok := keyOf(fa)
				if !ok {
					continue
				}
				seen[k] = true
				for _, ref := range *fa.Referrers() {
					switch r := ref.(type) {
					case *ssa.Store:
						if r.Addr == fa {
							if !isFreshBase(fa.X, 0) {
								bad[k] = true
							}
						} else {
							bad[k] = true // the address itself is stored somewhere
						}
					case *ssa.UnOp:
						if r.Op != token.MUL {
							bad[k] = true
						}
					case *ssa.DebugRef:
					default:
						bad[k] = true // address escapes (call argument, nested field address, ...)
					}
				}
			}
		}
	}
	e.initOnly = map[string]bool{}
	for k := range seen {
		if bad[k] {
			continue
		}
		st, ok := k.t.Underlying().(*types.Struct)
		if !ok {
			continue
		}
		f := st.Field(k.idx)
		if f.Exported() && k.t.Obj().Exported() {
			continue // code outside the repository can write it
		}
		e.initOnly[fmt.Sprintf("%s.f%d_", e.structKey(k.t), k.idx)] = true
		if os.Getenv("GOVC_SHOW_INITONLY") != "" {
			fmt.Fprintf(os.Stderr, "init-only: %s.%s\n", e.structKey(k.t), f.Name())
		}
	}
}

// allFunctions: every function of the loaded program (go/ssa's closure over the call graph roots).
func (e *Engine) allFunctions() map[*ssa.Function]bool { return ssautil.AllFunctions(e.prog) }
