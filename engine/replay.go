package main

// Replay of solver counterexamples against the real code: a generated Go test
// is injected into the function's package with `go test -overlay` (the
// repository is not written) and run with the model's argument values.

import (
	"encoding/json"
	"fmt"
	"go/types"
	"os"
	"os/exec"
	"path/filepath"
	"strings"
	"time"
)

type ReplayResult struct {
	Attempted  bool              `json:"attempted"`
	Reproduced bool              `json:"reproduced"`
	Why        string            `json:"why,omitempty"`
	Test       string            `json:"test_source,omitempty"`
	Output     string            `json:"output,omitempty"`
	Inputs     map[string]string `json:"inputs,omitempty"`
}

// oracles: Go boolean expressions (over the function's parameter and result
// names r0, r1, ...) that must be TRUE when the obligation holds. Written by
// hand from the property statements; used only to confirm counterexamples.
var oracles = []struct{ pattern, expr string }{
	{"#impl.datatype.DecoderFunc.len_preserved", "r1 != nil || r0.Len() == len(ARG0)"},
	{"#impl.datatype.DecoderFunc.payload_preserved", "r1 != nil || string(r0.Serialize()) == string(ARG0)"},
	{"#impl.datatype.DecoderFunc.nonnil", "r1 != nil || (r0 != nil && fmt.Sprintf(\"%T\", r0)[0] != '*')"},
	{"#impl.datatype.DecoderFunc.private", "r1 != nil || func() bool { before := string(r0.Serialize()); for i := range ARG0 { ARG0[i] ^= 0xff }; return string(r0.Serialize()) == before }()"},
	{"datatype.DecodeTime#post.dyn_type", "fmt.Sprintf(\"%T\", r0) == \"datatype.Time\""},
}

func (e *Engine) oracleFor(o *Obl) string {
	for _, oc := range oracles {
		if strings.Contains(o.Name, oc.pattern) {
			return oc.expr
		}
	}
	if s, ok := e.replayOracles[o.base()]; ok {
		return s
	}
	return ""
}

func (e *Engine) replay(o *Obl, prop string) ReplayResult {
	rr := ReplayResult{}
	fn := o.fc.fn
	if fn.Pkg == nil || fn.Signature.Recv() != nil && false {
		rr.Why = "no replay template for closures"
		return rr
	}
	// smaller model first: byte slices of at most 64 bytes
	model := map[string]string{}
	use := func(res SolverResult) {
		for k, w := range o.Watch {
			if k < len(res.Ordered) {
				model[w.Name] = res.Ordered[k]
			}
		}
	}
	use(o.Res)
	small := *o
	var cs []string
	for _, p := range fn.Params {
		if _, ok := p.Type().Underlying().(*types.Slice); ok {
			v := o.fc.vals[p]
			cs = append(cs, sx("bvule", v.T[2], bvLit(64, 64)), eq(v.T[1], bvLit(0, 64)))
		}
	}
	if len(cs) > 0 {
		small.Reach = and(append([]string{o.Reach}, cs...)...)
		f := writeScratch("rp_"+safeFile(o.Name)+".smt2", small.script(true))
		r := runSolvers(f, 10, nil)
		os.Remove(f)
		if r.Status == "sat" {
			model = map[string]string{}
			use(r)
		}
	}
	// build arguments
	var decl []string
	var args []string
	inputs := map[string]string{}
	imports := map[string]bool{"testing": true, "fmt": true}
	pkgName := fn.Pkg.Pkg.Name()
	qual := func(p *types.Package) string {
		if p == fn.Pkg.Pkg {
			return ""
		}
		imports[p.Path()] = true
		return p.Name()
	}
	params := fn.Params
	recv := ""
	for i, p := range params {
		name := fmt.Sprintf("a%d", i)
		t := p.Type()
		ts := types.TypeString(t, qual)
		var val string
		switch u := t.Underlying().(type) {
		case *types.Slice:
			if b, ok := u.Elem().Underlying().(*types.Basic); ok && b.Kind() == types.Uint8 {
				n, _ := smtValToInt(model[p.Name()+".l"])
				base, _ := smtValToInt(model[p.Name()+".b"])
				if n > 4096 || n < 0 {
					rr.Why = fmt.Sprintf("model needs a %d-byte slice; not replayed", n)
					return rr
				}
				var bs []string
				for k := int64(0); k < n; k++ {
					bv, ok := smtValToInt(model[fmt.Sprintf("%s[%d]", p.Name(), k)])
					if !ok {
						bv = 0
					}
					bs = append(bs, fmt.Sprintf("0x%02x", bv&0xff))
				}
				if base == 0 && n == 0 {
					val = ts + "(nil)"
				} else {
					val = ts + "{" + strings.Join(bs, ", ") + "}"
				}
				inputs[p.Name()] = val
			} else {
				rr.Why = "no replay template for parameter type " + ts
				return rr
			}
		case *types.Basic:
			switch {
			case u.Info()&types.IsInteger != 0:
				n, _ := smtValToInt(model[p.Name()+"."])
				if u.Info()&types.IsUnsigned != 0 {
					val = fmt.Sprintf("%s(%d)", ts, uint64(n)&mask(intWidth(u)))
				} else {
					w := intWidth(u)
					sv := int64(uint64(n)<<uint(64-w)) >> uint(64-w)
					val = fmt.Sprintf("%s(%d)", ts, sv)
				}
				inputs[p.Name()] = val
			case u.Info()&types.IsBoolean != 0:
				val = model[p.Name()+"."]
			default:
				rr.Why = "no replay template for parameter type " + ts
				return rr
			}
		case *types.Pointer:
			es := types.TypeString(u.Elem(), qual)
			if lit, ok := structLiteral(p.Name(), u, model, qual, 0); ok && es != "dict.Parser" && es != "Parser" {
				val = lit
				inputs[p.Name()] = val
				decl = append(decl, fmt.Sprintf("\t%s := %s", name, val))
				if i == 0 && fn.Signature.Recv() != nil {
					recv = name
				} else {
					args = append(args, name)
				}
				continue
			}
			switch es {
			case "dict.Parser", "Parser":
				imports["github.com/fiorix/go-diameter/v4/diam/dict"] = true
				if pkgName == "dict" {
					val = "Default"
				} else {
					val = "dict.Default"
				}
			default:
				if _, ok := u.Elem().Underlying().(*types.Struct); ok {
					val = "&" + es + "{}"
				} else {
					rr.Why = "no replay template for parameter type " + ts
					return rr
				}
			}
		default:
			rr.Why = "no replay template for parameter type " + ts
			return rr
		}
		decl = append(decl, fmt.Sprintf("\t%s := %s", name, val))
		if i == 0 && fn.Signature.Recv() != nil {
			recv = name
		} else {
			args = append(args, name)
		}
	}
	call := fn.Name() + "(" + strings.Join(args, ", ") + ")"
	if recv != "" {
		call = recv + "." + call
	}
	nres := fn.Signature.Results().Len()
	var rs []string
	for i := 0; i < nres; i++ {
		rs = append(rs, fmt.Sprintf("r%d", i))
	}
	oracle := e.oracleFor(o)
	expectPanic := o.Kind == "safe"
	if !expectPanic && oracle == "" {
		rr.Why = "no replay oracle for this obligation (postcondition not compiled to Go)"
		return rr
	}
	for i := range params {
		oracle = strings.ReplaceAll(oracle, fmt.Sprintf("ARG%d", i), fmt.Sprintf("a%d", i))
	}
	oracle = strings.ReplaceAll(oracle, "RECV", "a0")
	for pfx, imp := range map[string]string{"time.": "time", "binary.": "encoding/binary", "bytes.": "bytes", "strings.": "strings", "math.": "math"} {
		if strings.Contains(oracle, pfx) {
			imports[imp] = true
		}
	}
	var b strings.Builder
	fmt.Fprintf(&b, "package %s\n\nimport (\n", pkgName)
	for imp := range imports {
		fmt.Fprintf(&b, "\t%q\n", imp)
	}
	b.WriteString(")\n\nfunc TestVerifReplay(t *testing.T) {\n")
	b.WriteString("\tdefer func() {\n\t\tif r := recover(); r != nil {\n\t\t\tfmt.Println(\"REPLAY-PANIC:\", r)\n\t\t}\n\t}()\n")
	b.WriteString(strings.Join(decl, "\n") + "\n")
	if nres > 0 {
		fmt.Fprintf(&b, "\t%s := %s\n", strings.Join(rs, ", "), call)
		for _, r := range rs {
			fmt.Fprintf(&b, "\t_ = %s\n", r)
		}
		fmt.Fprintf(&b, "\tfmt.Printf(\"REPLAY-RESULT: %s\\n\", %s)\n", strings.Repeat("%#v ", nres), strings.Join(rs, ", "))
	} else {
		fmt.Fprintf(&b, "\t%s\n", call)
	}
	if oracle != "" {
		fmt.Fprintf(&b, "\tif !(%s) {\n\t\tfmt.Println(\"REPLAY-ORACLE-FALSE\")\n\t} else {\n\t\tfmt.Println(\"REPLAY-ORACLE-TRUE\")\n\t}\n", oracle)
	}
	b.WriteString("}\n")
	rr.Test = b.String()
	rr.Inputs = inputs
	rr.Attempted = true
	// run it
	dir, err := os.MkdirTemp("", "govc-replay-")
	if err != nil {
		rr.Why = err.Error()
		return rr
	}
	defer os.RemoveAll(dir)
	src := filepath.Join(dir, "zz_verif_replay_test.go")
	os.WriteFile(src, []byte(rr.Test), 0o644)
	rel := strings.TrimPrefix(fn.Pkg.Pkg.Path(), repoModule)
	target := filepath.Join(e.repo, rel, "zz_verif_replay_test.go")
	ov, _ := json.Marshal(map[string]interface{}{"Replace": map[string]string{target: src}})
	ovf := filepath.Join(dir, "ov.json")
	os.WriteFile(ovf, ov, 0o644)
	cmd := exec.Command("go", "test", "-tags", "verif", "-overlay", ovf, "-vet=off", "-v", "-count=1", "-timeout", "60s", "-run", "^TestVerifReplay$", "."+rel)
	cmd.Dir = e.repo
	cmd.Env = append(os.Environ(), "GOFLAGS=-mod=mod", "GOPROXY=off", "GOSUMDB=off", "GOTOOLCHAIN=local")
	done := make(chan struct{})
	var out []byte
	go func() { out, _ = cmd.CombinedOutput(); close(done) }()
	select {
	case <-done:
	case <-time.After(120 * time.Second):
		cmd.Process.Kill()
		<-done
	}
	rr.Output = truncate(string(out), 3000)
	switch {
	case expectPanic:
		rr.Reproduced = strings.Contains(rr.Output, "REPLAY-PANIC:")
		if !rr.Reproduced {
			rr.Why = "the real code did not panic on the model's input"
		}
	default:
		rr.Reproduced = strings.Contains(rr.Output, "REPLAY-ORACLE-FALSE")
		if !rr.Reproduced {
			rr.Why = "the real code satisfied the oracle on the model's input"
			if strings.Contains(rr.Output, "[build failed]") {
				rr.Why = "the generated replay test does not compile (see output)"
			}
		}
	}
	return rr
}

// structLiteral builds &T{...} from the model's values for the scalar fields (two levels of pointers).
func structLiteral(name string, pt *types.Pointer, model map[string]string, qual types.Qualifier, depth int) (string, bool) {
	st, ok := pt.Elem().Underlying().(*types.Struct)
	if !ok || depth > 1 {
		return "", false
	}
	if ref, ok := smtValToInt(model[name+"."]); ok && ref == 0 && depth == 0 {
		return "nil", true
	}
	var fs []string
	seen := false
	for i := 0; i < st.NumFields(); i++ {
		f := st.Field(i)
		key := name + "." + f.Name()
		switch u := f.Type().Underlying().(type) {
		case *types.Basic:
			mv, ok := model[key]
			if !ok {
				continue
			}
			seen = true
			n, _ := smtValToInt(mv)
			ts := types.TypeString(f.Type(), qual)
			switch {
			case u.Info()&types.IsBoolean != 0:
				fs = append(fs, fmt.Sprintf("%s: %v", f.Name(), n != 0))
			case u.Info()&types.IsUnsigned != 0:
				fs = append(fs, fmt.Sprintf("%s: %s(%d)", f.Name(), ts, uint64(n)&mask(intWidth(u))))
			default:
				w := intWidth(u)
				fs = append(fs, fmt.Sprintf("%s: %s(%d)", f.Name(), ts, int64(uint64(n)<<uint(64-w))>>uint(64-w)))
			}
		case *types.Pointer:
			mv, ok := model[key]
			if !ok {
				continue
			}
			if n, _ := smtValToInt(mv); n == 0 {
				continue
			}
			if lit, ok := structLiteral(key, u, model, qual, depth+1); ok {
				fs = append(fs, fmt.Sprintf("%s: %s", f.Name(), lit))
				seen = true
			}
		}
	}
	if !seen && depth == 0 {
		return "", false
	}
	return "&" + types.TypeString(pt.Elem(), qual) + "{" + strings.Join(fs, ", ") + "}", true
}
