package main

import (
	"flag"
	"fmt"
	"os"
	"sort"
	"strings"
	"sync"
	"time"

	"golang.org/x/tools/go/ssa"
)

func (e *Engine) preludeDecls() []string {
	return []string{
		"(declare-fun slen (Int) (_ BitVec 64))",
		"(declare-fun strarr (Int) (Array (_ BitVec 64) (_ BitVec 8)))",
	}
}

func hasProp(ps []string, p string) bool {
	for _, x := range ps {
		if x == p {
			return true
		}
	}
	return false
}

// contractMentions: does the contract carry property p on itself or on a clause.
func contractMentions(c *Contract, p string) bool {
	if hasProp(c.Props, p) {
		return true
	}
	for _, cl := range c.Ensures {
		if hasProp(cl.Props, p) {
			return true
		}
	}
	for _, cl := range c.Requires {
		if hasProp(cl.Props, p) {
			return true
		}
	}
	for _, l := range c.Loops {
		for _, cl := range l.Invariants {
			if hasProp(cl.Props, p) {
				return true
			}
		}
	}
	return false
}

type runResult struct {
	obls     []*Obl
	fcs      []*FnCtx
	errors   []string
	started  time.Time
	funcs    []string
}

func (e *Engine) generate(prop string, only string) *runResult {
	rr := &runResult{started: time.Now()}
	var names []string
	for _, key := range e.specs.Order {
		c := e.specs.Contracts[key]
		if c.Kind != "func" || c.Trusted {
			continue
		}
		if only != "" {
			if c.Name != only {
				continue
			}
		} else if prop != "" && !contractMentions(c, prop) {
			continue
		}
		names = append(names, key)
	}
	for _, key := range names {
		c := e.specs.Contracts[key]
		fn := e.funcs[c.Name]
		if fn == nil {
			rr.errors = append(rr.errors, fmt.Sprintf("%s#exists: contract at %s:%d names a function that is not in the program", c.Name, c.File, c.Line))
			continue
		}
		fc, err := e.verifyFunction(fn, c)
		if err != nil {
			rr.errors = append(rr.errors, err.Error())
			continue
		}
		rr.fcs = append(rr.fcs, fc)
		rr.funcs = append(rr.funcs, c.Name)
		for _, o := range fc.obls {
			if prop != "" && only == "" {
				// obligations of the property: tagged clauses, plus untagged safety/frame/pre/cover of tagged functions
				if len(o.Props) > 0 && !hasProp(o.Props, prop) {
					continue
				}
				if len(o.Props) == 0 && !hasProp(c.Props, prop) && o.Kind != "cover" {
					continue
				}
			}
			rr.obls = append(rr.obls, o)
		}
	}
	return rr
}

func (e *Engine) solveAll(obls []*Obl, par int, timeout int, dump string) {
	var wg sync.WaitGroup
	sem := make(chan struct{}, par)
	for i, o := range obls {
		wg.Add(1)
		sem <- struct{}{}
		go func(i int, o *Obl) {
			defer wg.Done()
			defer func() { <-sem }()
			txt := o.script(true)
			f := writeScratch(fmt.Sprintf("o%d.smt2", i), txt)
			if dump != "" {
				os.WriteFile(fmt.Sprintf("%s/o%d.smt2", dump, i), []byte(txt), 0o644)
			}
			to := timeout
			if o.Canary {
				to = 1
				if timeout > 30 {
					to = 5
				}
			}
			o.Res = runSolvers(f, to, nil)
			if !o.Canary && !o.ExpectSat && o.Res.Status != "unsat" && o.Res.Status != "sat" && strings.Contains(txt, "(forall ") {
				// undecided with quantified facts: look for a counterexample in the ground context (to be validated by replay)
				o.GroundOnly = true
				g := writeScratch(fmt.Sprintf("o%dg.smt2", i), o.script(true))
				r2 := runSolvers(g, to, nil)
				os.Remove(g)
				if r2.Status == "sat" {
					r2.Output = "ground-context model (quantified facts dropped); first attempt: " + o.Res.Status + "\n" + r2.Output
					o.Res = r2
				} else {
					o.GroundOnly = false
				}
			}
			os.Remove(f)
		}(i, o)
	}
	wg.Wait()
}

func (o *Obl) ok() bool {
	if o.Canary {
		return o.Res.Status != "unsat"
	}
	if o.ExpectSat {
		return o.Res.Status == "sat"
	}
	return o.Res.Status == "unsat"
}

func main() {
	repo := flag.String("repo", envOr("VERIF_REPO", "/repo"), "repository under verification")
	verif := flag.String("verif", envOr("VERIF_DIR", "/verif"), "verification directory")
	prop := flag.String("prop", "", "property id")
	only := flag.String("fn", "", "verify a single function (canonical name)")
	tier := flag.String("tier", "quick", "quick|thorough")
	dump := flag.String("dump", "", "directory to dump SMT files into")
	verbose := flag.Bool("v", false, "verbose")
	par := flag.Int("j", 16, "parallel solver jobs")
	list := flag.Bool("list", false, "list functions")
	check := flag.Bool("check", false, "property check: ledger, known findings, replay, evidence; exit 1 on violation")
	wl := flag.Bool("write-ledger", false, "write /verif/ledger/<prop>.txt from the obligations generated now")
	flag.Parse()
	defer cleanupScratch()

	e, err := loadEngine(*repo, *verif)
	if err != nil {
		fmt.Fprintln(os.Stderr, "load:", err)
		os.Exit(2)
	}
	e.tier = *tier
	e.verbose = *verbose
	e.timeout = 10
	if *tier == "thorough" {
		e.timeout = 120
	}
	if *list {
		var ns []string
		for n := range e.funcs {
			ns = append(ns, n)
		}
		sort.Strings(ns)
		for _, n := range ns {
			fmt.Println(n)
		}
		return
	}
	if err := e.loadSpecs(); err != nil {
		fmt.Fprintln(os.Stderr, "specs:", err)
		os.Exit(2)
	}
	if *check || *wl {
		if *prop == "" {
			fmt.Fprintln(os.Stderr, "-check needs -prop")
			os.Exit(2)
		}
		rc := e.checkProperty(*prop, *tier, *par, *wl)
		cleanupScratch()
		os.Exit(rc)
	}
	rr := e.generate(*prop, *only)
	for _, er := range rr.errors {
		fmt.Println("ERROR", er)
	}
	if *dump != "" {
		os.MkdirAll(*dump, 0o755)
	}
	e.solveAll(rr.obls, *par, e.timeout, *dump)
	nok := 0
	for i, o := range rr.obls {
		st := "FAIL"
		if o.ok() {
			st = "ok"
			nok++
		}
		if *verbose || !o.ok() {
			fmt.Printf("%-4s [%d] %s  (%s %s %.2fs)\n", st, i, o.Name, o.Res.Status, o.Res.Solver, o.Res.Secs)
			if !o.ok() && o.Res.Status == "sat" {
				var ks []string
				for k, w := range o.Watch {
					if k < len(o.Res.Ordered) {
						ks = append(ks, w.Name+"="+o.Res.Ordered[k])
					}
				}
				if len(ks) > 24 {
					ks = ks[:24]
				}
				fmt.Println("      model:", strings.Join(ks, " "))
			}
			if !o.ok() && o.Res.Status != "sat" {
				fmt.Println("      ", firstLines(o.Res.Output, 3))
			}
		}
	}
	fmt.Printf("%d/%d obligations discharged, %d functions, %d errors, %.1fs\n", nok, len(rr.obls), len(rr.funcs), len(rr.errors), time.Since(rr.started).Seconds())
	if nok != len(rr.obls) || len(rr.errors) > 0 {
		cleanupScratch()
		os.Exit(1)
	}
}

func envOr(k, d string) string {
	if v := os.Getenv(k); v != "" {
		return v
	}
	return d
}

var _ = ssa.GlobalDebug
