package main

import (
	"flag"
	"fmt"
	"os"
	"sort"
	"strings"
	"sync"
	"time"

	"golang.org/x/tools/go/ssa"
)

func (e *Engine) preludeDecls() []string {
	return []string{
		"(declare-fun slen (Int) (_ BitVec 64))",
		"(declare-fun strarr (Int) (Array (_ BitVec 64) (_ BitVec 8)))",
		"(declare-fun ismapped (Int (_ BitVec 64)) Bool)",
		"(declare-fun isptrtag (Int) Bool)",
	}
}

func hasProp(ps []string, p string) bool {
	for _, x := range ps {
		if x == p {
			return true
		}
	}
	return false
}

// contractMentions: does the contract carry property p on itself or on a clause.
func contractMentions(c *Contract, p string) bool {
	if hasProp(c.Props, p) {
		return true
	}
	for _, cl := range c.Ensures {
		if hasProp(cl.Props, p) {
			return true
		}
	}
	for _, cl := range c.Requires {
		if hasProp(cl.Props, p) {
			return true
		}
	}
	for _, l := range c.Loops {
		for _, cl := range l.Invariants {
			if hasProp(cl.Props, p) {
				return true
			}
		}
	}
	return false
}

type runResult struct {
	obls    []*Obl
	fcs     []*FnCtx
	errors  []string
	started time.Time
	funcs   []string
}

func (e *Engine) generate(prop string, only string) *runResult {
	rr := &runResult{started: time.Now()}
	var names []string
	for _, key := range e.specs.Order {
		c := e.specs.Contracts[key]
		if c.Kind != "func" || c.Trusted {
			continue
		}
		if only != "" {
			if c.Name != only {
				continue
			}
		} else if prop != "" && !contractMentions(c, prop) {
			continue
		} else if c.ThoroughOnly && e.tier != "thorough" {
			e.assumptionsUsed["contract of "+c.Name+" is discharged in the thorough tier only (its proof needs more than the quick per-obligation budget); in this quick run it is assumed at its call sites"] = true
			continue
		}
		names = append(names, key)
	}
	// Dependency closure (property checks): a proof of a function uses the contracts of its callees, so a property is only
	// decided by its own check if the clauses its functions rely on are discharged there too. Every repository function
	// whose contract is applied at a call site of a function in the set joins the set (transitively; through an
	// interface or function-type contract: every function that "implements" it), with ALL its obligations.
	inSet := map[string]bool{}
	dep := map[string]bool{}
	for _, k := range names {
		inSet[k] = true
	}
	implementers := map[string][]string{}
	for _, key := range e.specs.Order {
		c := e.specs.Contracts[key]
		if c.Kind == "func" && !c.Trusted {
			for _, im := range c.Impl {
				implementers[im] = append(implementers[im], key)
			}
		}
	}
	closure := prop != "" && only == "" && os.Getenv("GOVC_NODEPS") == ""
	relied := map[string]bool{}
	type pending struct {
		key string
		c   *Contract
		fc  *FnCtx
	}
	var pend []pending
	for qi := 0; qi < len(names); qi++ {
		key := names[qi]
		c := e.specs.Contracts[key]
		fn := e.funcs[c.Name]
		if fn == nil {
			rr.errors = append(rr.errors, fmt.Sprintf("%s#exists: contract at %s:%d names a function that is not in the program", c.Name, c.File, c.Line))
			continue
		}
		fc, err := e.verifyFunction(fn, c)
		if err != nil {
			rr.errors = append(rr.errors, err.Error())
			continue
		}
		rr.fcs = append(rr.fcs, fc)
		rr.funcs = append(rr.funcs, c.Name)
		if closure {
			var used []*Contract
			for uc := range fc.usedContracts {
				used = append(used, uc)
			}
			sort.Slice(used, func(i, j int) bool { return used[i].Name < used[j].Name })
			add := func(k string) {
				dc := e.specs.Contracts[k]
				if dc == nil || dc.Kind != "func" || dc.Trusted {
					return
				}
				if inSet[k] {
					// already in the run because it carries the property's tag: another function of the run relies on its
					// whole contract, so all of its clauses are discharged here, not only the tagged ones
					relied[k] = true
					return
				}
				if dc.ThoroughOnly && e.tier != "thorough" {
					e.assumptionsUsed["contract of "+dc.Name+" is discharged in the thorough tier only (its proof needs more than the quick per-obligation budget); in this quick run it is assumed at its call sites"] = true
					return
				}
				inSet[k] = true
				dep[k] = true
				names = append(names, k)
			}
			for _, uc := range used {
				switch uc.Kind {
				case "func":
					add(uc.Name)
				case "iface", "functype":
					ims := append([]string(nil), implementers[uc.Name]...)
					sort.Strings(ims)
					for _, k := range ims {
						add(k)
					}
				}
			}
		}
		pend = append(pend, pending{key, c, fc})
	}
	for _, pd := range pend {
		key, c, fc := pd.key, pd.c, pd.fc
		whole := dep[key] || relied[key]
		for _, o := range fc.obls {
			if hasProp(o.Props, "thorough") && e.tier != "thorough" {
				continue
			}
			if hasProp(o.Props, "assumed") {
				// a clause marked [... assumed] is part of the contract its callers use but is NOT discharged: it is
				// listed as an assumption in the evidence of every property whose check meets it
				e.assumptionsUsed["ASSUMED clause (stated, used by callers, not discharged): "+o.base()+" :: "+o.Contract] = true
				continue
			}
			if prop != "" && only == "" && !whole {
				// obligations of the property: tagged clauses, plus untagged safety/frame/pre/cover of tagged functions
				if len(o.Props) > 0 && !hasProp(o.Props, prop) {
					continue
				}
				if len(o.Props) == 0 && !hasProp(c.Props, prop) && o.Kind != "cover" {
					continue
				}
			}
			if whole {
				o.Dep = dep[key]
				// a clause that is a recorded finding of another property is reported by that property's check; here it
				// stays an assumption of the callers' proofs (listed as such)
				skip := false
				for _, k := range e.known {
					if k.Kind == "known" && k.Obligation == o.base() && k.Property != prop {
						e.assumptionsUsed["clause "+o.base()+" of a function this property relies on is a KNOWN FINDING of "+k.Property+" (reported there); the proofs of its callers here assume it"] = true
						skip = true
					}
				}
				if skip {
					continue
				}
			}
			rr.obls = append(rr.obls, o)
		}
	}
	return rr
}

func (e *Engine) solveAll(obls []*Obl, par int, timeout int, dump string) {
	var wg sync.WaitGroup
	sem := make(chan struct{}, par)
	for i, o := range obls {
		wg.Add(1)
		sem <- struct{}{}
		go func(i int, o *Obl) {
			defer wg.Done()
			defer func() { <-sem }()
			if o.Direct {
				return
			}
			if dump != "" {
				os.WriteFile(fmt.Sprintf("%s/o%d.smt2", dump, i), []byte(o.script(true)), 0o644)
			}
			to := timeout
			if o.Canary {
				to = 1
				if timeout > 30 {
					to = 5
				}
			}
			tag := fmt.Sprintf("o%d", i)
			if !o.Canary && !o.ExpectSat {
				// direct attempt first (short), proof by cases only if that does not decide it
				dto := to
				if len(o.fc.splits) > 0 && dto > 5 {
					dto = 5
				}
				o.Res = decide(o, dto, tag)
				o.GroundOnly = strings.HasPrefix(o.Res.Output, "ground-context")
				if o.Res.Status == "unsat" || (o.Res.Status == "sat" && !o.GroundOnly) {
					return
				}
			}
			if !o.Canary && !o.ExpectSat && len(o.fc.splits) > 0 && o.NItems > o.fc.splitAt {
				// proof by cases over the contract's split dimensions (exhaustive: each dimension includes "none")
				cases := o.fc.splits
				ch := make(chan SolverResult, len(cases))
				for ci, c := range cases {
					go func(ci int, c string) {
						o2 := *o
						o2.Reach = and(o.Reach, c)
						ch <- decide(&o2, to, fmt.Sprintf("%sc%d", tag, ci))
					}(ci, c)
				}
				all := true
				secs := 0.0
				var bad SolverResult
				for range cases {
					r := <-ch
					secs += r.Secs
					if r.Status != "unsat" {
						all = false
						if bad.Status != "sat" {
							bad = r
						}
					}
				}
				if all {
					o.Res = SolverResult{Status: "unsat", Solver: fmt.Sprintf("by %d cases", len(cases)), Secs: secs}
				} else {
					o.Res = bad
					o.GroundOnly = strings.HasPrefix(bad.Output, "ground-context")
				}
				return
			}
			if o.Canary || o.ExpectSat {
				o.Res = decide(o, to, tag)
			}
		}(i, o)
	}
	wg.Wait()
	// second attempt for obligations no solver decided (timeout / unknown): alone on an otherwise idle machine and with
	// three times the budget, so that a proof that needs a few seconds is not lost to the load of the parallel phase.
	// A genuine counterexample (sat with a model) is never retried.
	var retry []int
	for i, o := range obls {
		if o.Direct || o.Canary || o.ExpectSat || o.ok() {
			continue
		}
		if o.Res.Status == "sat" && !o.GroundOnly {
			continue
		}
		retry = append(retry, i)
	}
	if len(retry) > 0 && len(retry) <= 40 {
		sem2 := make(chan struct{}, 3)
		var wg2 sync.WaitGroup
		for _, i := range retry {
			wg2.Add(1)
			sem2 <- struct{}{}
			go func(i int, o *Obl) {
				defer wg2.Done()
				defer func() { <-sem2 }()
				r := decide(o, timeout*3, fmt.Sprintf("o%dr", i))
				if r.Status == "unsat" {
					r.Solver += " second attempt"
					o.Res = r
					o.GroundOnly = false
				}
			}(i, obls[i])
		}
		wg2.Wait()
	}
}

func runVariant(o *Obl, to int, name string, model bool, set func(*Obl)) SolverResult {
	o2 := *o
	set(&o2)
	f := writeScratch(name+".smt2", o2.script(model))
	defer os.Remove(f)
	return runSolvers(f, to, nil)
}

// decide one obligation. Dropping hypotheses is sound for proving, so weaker contexts are tried too:
// quantified facts that are irrelevant to a goal are what makes solvers time out.
func decide(o *Obl, to int, tag string) SolverResult {
	if o.Canary || o.ExpectSat {
		return runVariant(o, to, tag, true, func(*Obl) {})
	}
	nSpec, nEng := 0, 0
	for _, it := range o.fc.items[:o.NItems] {
		if strings.Contains(it, "(forall ") || strings.Contains(it, "(exists ") {
			if strings.Contains(it, "(forall ((i!q ") {
				nEng++
			} else {
				nSpec++
			}
		}
	}
	if nSpec == 0 {
		r := runVariant(o, to, tag, true, func(*Obl) {})
		if r.Status != "unsat" && r.Status != "sat" && nEng > 0 {
			g := runVariant(o, to, tag+"g", true, func(x *Obl) { x.GroundOnly = true })
			if g.Status == "sat" {
				g.Output = "ground-context model (quantified facts dropped); first attempt: " + r.Status + "\n" + g.Output
				return g
			}
		}
		return r
	}
	// 1. only the engine's own array axioms (copy / append / frames)
	r := runVariant(o, to, tag+"e", false, func(x *Obl) { x.QEngine = true })
	if r.Status == "unsat" {
		r.Solver += " [engine array axioms only]"
		return r
	}
	// 2. the engine's axioms plus exactly one spec-level quantified fact
	{
		ch := make(chan SolverResult, nSpec)
		n := 0
		for k := 1; k <= nSpec && nSpec <= 4; k++ {
			n++
			go func(k int) {
				x := runVariant(o, to, fmt.Sprintf("%so%d", tag, k), false, func(x *Obl) { x.QEngine = true; x.QOnly = k })
				x.Solver += fmt.Sprintf(" [engine array axioms + spec fact %d of %d]", k, nSpec)
				ch <- x
			}(k)
		}
		var won *SolverResult
		for j := 0; j < n; j++ {
			x := <-ch
			if x.Status == "unsat" && won == nil {
				w := x
				won = &w
			}
		}
		if won != nil {
			return *won
		}
	}
	// 3. everything
	full := runVariant(o, to, tag, true, func(*Obl) {})
	if full.Status == "unsat" || full.Status == "sat" {
		return full
	}
	// 3. engine axioms plus the most recent k spec facts; the most recent k facts of any kind
	type sr struct {
		k int
		r SolverResult
	}
	ch := make(chan sr, 16)
	started := 0
	for k := 1; k <= nSpec && k <= 2; k++ {
		started++
		go func(k int) {
			x := runVariant(o, to, fmt.Sprintf("%se%d", tag, k), false, func(x *Obl) { x.QEngine = true; x.QSuffix = k })
			x.Solver += fmt.Sprintf(" [engine array axioms + last %d of %d spec facts]", k, nSpec)
			ch <- sr{k, x}
		}(k)
	}
	for k := 1; k < nSpec+nEng && k <= 2; k++ {
		started++
		go func(k int) {
			x := runVariant(o, to, fmt.Sprintf("%sq%d", tag, k), false, func(x *Obl) { x.QSuffix = k })
			x.Solver += fmt.Sprintf(" [last %d of %d quantified facts]", k, nSpec+nEng)
			ch <- sr{k, x}
		}(k)
	}
	var won *SolverResult
	for j := 0; j < started; j++ {
		x := <-ch
		if x.r.Status == "unsat" && won == nil {
			w := x.r
			won = &w
		}
	}
	if won != nil {
		return *won
	}
	// 4. undecided: look for a counterexample in the ground context (to be validated by replay)
	g := runVariant(o, to, tag+"g", true, func(x *Obl) { x.GroundOnly = true })
	if g.Status == "sat" {
		g.Output = "ground-context model (quantified facts dropped); first attempt: " + full.Status + "\n" + g.Output
		return g
	}
	return full
}

func (o *Obl) ok() bool {
	if o.Canary {
		return o.Res.Status != "unsat"
	}
	if o.ExpectSat {
		return o.Res.Status == "sat"
	}
	return o.Res.Status == "unsat"
}

func main() {
	repo := flag.String("repo", envOr("VERIF_REPO", "/repo"), "repository under verification")
	verif := flag.String("verif", envOr("VERIF_DIR", "/verif"), "verification directory")
	prop := flag.String("prop", "", "property id")
	only := flag.String("fn", "", "verify a single function (canonical name)")
	tier := flag.String("tier", "quick", "quick|thorough")
	dump := flag.String("dump", "", "directory to dump SMT files into")
	verbose := flag.Bool("v", false, "verbose")
	par := flag.Int("j", 16, "parallel solver jobs")
	list := flag.Bool("list", false, "list functions")
	check := flag.Bool("check", false, "property check: ledger, known findings, replay, evidence; exit 1 on violation")
	wl := flag.Bool("write-ledger", false, "write /verif/ledger/<prop>.txt from the obligations generated now")
	flag.Parse()
	defer cleanupScratch()

	e, err := loadEngine(*repo, *verif)
	if err != nil {
		fmt.Fprintln(os.Stderr, "load:", err)
		os.Exit(2)
	}
	e.tier = *tier
	e.verbose = *verbose
	e.timeout = 10
	if *tier == "thorough" {
		e.timeout = 120
	}
	if *list {
		var ns []string
		for n := range e.funcs {
			ns = append(ns, n)
		}
		sort.Strings(ns)
		for _, n := range ns {
			fmt.Println(n)
		}
		return
	}
	if err := e.loadSpecs(); err != nil {
		fmt.Fprintln(os.Stderr, "specs:", err)
		os.Exit(2)
	}
	if *check || *wl {
		if *prop == "" {
			fmt.Fprintln(os.Stderr, "-check needs -prop")
			os.Exit(2)
		}
		rc := e.checkProperty(*prop, *tier, *par, *wl)
		cleanupScratch()
		os.Exit(rc)
	}
	rr := e.generate(*prop, *only)
	for _, er := range rr.errors {
		fmt.Println("ERROR", er)
	}
	if *dump != "" {
		os.MkdirAll(*dump, 0o755)
	}
	e.solveAll(rr.obls, *par, e.timeout, *dump)
	nok := 0
	for i, o := range rr.obls {
		st := "FAIL"
		if o.ok() {
			st = "ok"
			nok++
		}
		if *verbose || !o.ok() {
			gm := ""
			if o.GroundOnly {
				gm = " ground-context"
			}
			fmt.Printf("%-4s [%d] %s  (%s %s %.2fs%s)\n", st, i, o.Name, o.Res.Status, o.Res.Solver, o.Res.Secs, gm)
			if !o.ok() && o.Res.Status == "sat" {
				var ks []string
				for k, w := range o.Watch {
					if k < len(o.Res.Ordered) {
						ks = append(ks, w.Name+"="+o.Res.Ordered[k])
					}
				}
				if len(ks) > 24 {
					ks = ks[:24]
				}
				fmt.Println("      model:", strings.Join(ks, " "))
			}
			if !o.ok() && o.Res.Status != "sat" {
				fmt.Println("      ", firstLines(o.Res.Output, 3))
			}
		}
	}
	if *verbose {
		for i, t := range e.tagList {
			fmt.Printf("tag %d = %s\n", i+1, t)
		}
	}
	fmt.Printf("%d/%d obligations discharged, %d functions, %d errors, %.1fs\n", nok, len(rr.obls), len(rr.funcs), len(rr.errors), time.Since(rr.started).Seconds())
	if nok != len(rr.obls) || len(rr.errors) > 0 {
		cleanupScratch()
		os.Exit(1)
	}
}

func envOr(k, d string) string {
	if v := os.Getenv(k); v != "" {
		return v
	}
	return d
}

var _ = ssa.GlobalDebug
