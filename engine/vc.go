package main

// VC generation: forward symbolic execution of one go/ssa function over its
// loop-cut control-flow graph. Every obligation is emitted together with the
// index of the last fact that may be used to prove it (program order).

import (
	"regexp"
	"bytes"
	"fmt"
	"go/ast"
	"go/constant"
	"go/printer"
	"go/token"
	"go/types"
	"sort"
	"strings"

	"golang.org/x/tools/go/ssa"
)

type Obl struct {
	Dep bool // obligation of a function that is in the run only because a function of the property relies on its contract
	Fn       string
	Fails    []string // bounded stand-ins: the inputs that failed on the real code
	Name     string // full name fn#kind.label
	Kind     string // post pre inv.entry inv.preserve safe frame lemma cover canary alloc decreases
	Label    string
	Props    []string
	Goal     string
	Reach    string
	NItems   int // number of fc.items usable as hypotheses
	Pos      token.Position
	Watch    []watch
	fc       *FnCtx
	Contract string // text of the clause
	// result
	Res SolverResult
	// for cover obligations the expected status is sat (quantified facts are left out of the query);
	// for canary obligations (goal false, all facts) anything but unsat is expected
	ExpectSat  bool
	Canary     bool
	GroundOnly bool // script without quantified facts (used to search for a counterexample)
	QSuffix    int  // >0: keep only the last QSuffix quantified facts (sound weakening of the hypotheses)
	Direct     bool // decided outside the solver (finite enumeration); Res is pre-filled
	QOnly      int  // >0 (with QEngine): keep exactly the QOnly-th spec-level quantified fact
	QEngine    bool // with QSuffix: always keep the engine's own array-definition axioms (copy/append/frame), count only spec quantifiers
}

type watch struct {
	Name string
	Term string
}

type State struct {
	heap map[string]string
	hac  map[string]string // allocation counter when the key was last written (bounds the refs stored under it)
	gen  int
	ac   string
	// spawned: on some path to here this function has started a goroutine (see syncPoint)
	spawned bool
}

func (s *State) clone() *State {
	n := &State{heap: make(map[string]string, len(s.heap)), hac: make(map[string]string, len(s.hac)), gen: s.gen, ac: s.ac, spawned: s.spawned}
	for k, v := range s.heap {
		n.heap[k] = v
	}
	for k, v := range s.hac {
		n.hac[k] = v
	}
	return n
}

// acOfKey: every ref stored under the key was allocated before this counter value.
func (fc *FnCtx) acOfKey(st *State, key string) string {
	if a, ok := st.hac[key]; ok {
		return a
	}
	if a := fc.gens[st.gen].ac; a != "" {
		return a
	}
	return st.ac
}

type genInfo struct {
	conds []string
	gens  []int
	ac    string // base generations: allocation counter when the generation began
}

type edge struct{ from, to *ssa.BasicBlock }

type deferRec struct {
	instr *ssa.Defer
	cond  string
}

type FnCtx struct {
	e            *Engine
	fn           *ssa.Function
	name         string
	c            *Contract
	decls        []string
	declared     map[string]bool
	items        []string
	obls         []*Obl
	vals         map[ssa.Value]V
	ctr          int
	keySort      map[string]string
	gens         []*genInfo
	genMemo      map[string]string
	entry        *State
	cur          *State // state while executing a block
	reach        string // reach condition of the current block
	curBlock     *ssa.BasicBlock
	outState     map[*ssa.BasicBlock]*State
	outReach     map[*ssa.BasicBlock]string
	edgeCond     map[edge]string
	backEdge     map[edge]bool
	loopOrd      map[*ssa.BasicBlock]int
	loopBody     map[*ssa.BasicBlock]map[*ssa.BasicBlock]bool
	loopPhi      map[*ssa.BasicBlock]map[string]V // header -> names at header (for back-edge check)
	loopPre      map[*ssa.BasicBlock]*State
	loopDec      map[*ssa.BasicBlock]string
	params       map[string]V
	oblNames     map[string]int
	defers       []deferRec
	assumptions  map[string]bool
	dtDecl       map[string]bool
	retCount     int
	watchBase    []watch
	uncontracted map[string]bool
	inBlockLocals bool // call-site clauses: locals defined earlier in the block being executed may be named
	usedContracts map[*Contract]bool // contracts applied at this function's call sites (dependency closure of a property check)
	debugNames   map[*ssa.BasicBlock]map[string]ssa.Value
	ifaceSeen    map[string]types.Type
	recovered    bool
	dry          bool
	pass         *passInfo
	prev         *passInfo
	prevSorts    map[string]string
	nilChecked   map[string]*ssa.BasicBlock
	qctr         int
	spawned      []string
	ownT         []modTarget
	implT        map[string][]modTarget
	peelAlt      map[string]string
	unsafeVals   map[string]bool
	inPanicExit  bool
	privateCells []*Loc
	tagsUsed     map[string]types.Type
	retReach     []string
	witness      map[string]string
	loopTargets  map[*ssa.BasicBlock]*loopFrame
	localRefs    map[string]bool
	splits       []string
	splitAt      int
	havocked     []string
	peel         map[string][2]string
}

type loopFrame struct {
	targets []modTarget
	ac      string
	text    string
}

func (e *Engine) newFnCtx(fn *ssa.Function, c *Contract) *FnCtx {
	fc := &FnCtx{e: e, fn: fn, name: e.canon(fn), c: c, declared: map[string]bool{}, vals: map[ssa.Value]V{},
		keySort: map[string]string{}, genMemo: map[string]string{}, outState: map[*ssa.BasicBlock]*State{},
		outReach: map[*ssa.BasicBlock]string{}, edgeCond: map[edge]string{}, backEdge: map[edge]bool{},
		loopOrd: map[*ssa.BasicBlock]int{}, loopBody: map[*ssa.BasicBlock]map[*ssa.BasicBlock]bool{},
		loopPhi: map[*ssa.BasicBlock]map[string]V{}, loopPre: map[*ssa.BasicBlock]*State{}, loopDec: map[*ssa.BasicBlock]string{},
		params: map[string]V{}, oblNames: map[string]int{}, assumptions: map[string]bool{}, dtDecl: map[string]bool{},
		uncontracted: map[string]bool{}, ifaceSeen: map[string]types.Type{}}
	fc.gens = []*genInfo{{}}
	return fc
}

// ---------------------------------------------------------------------------
// emission helpers

func (fc *FnCtx) declare(name, sort string) {
	if fc.declared[name] {
		return
	}
	fc.declared[name] = true
	fc.decls = append(fc.decls, fmt.Sprintf("(declare-const %s %s)", name, sort))
}

func (fc *FnCtx) declareFun(name string, args []string, ret string) {
	if fc.declared[name] {
		return
	}
	fc.declared[name] = true
	fc.decls = append(fc.decls, fmt.Sprintf("(declare-fun %s (%s) %s)", name, strings.Join(args, " "), ret))
}

func (fc *FnCtx) fresh(hint, sort string) string {
	fc.ctr++
	n := fmt.Sprintf("|%s!%d|", sanitize(hint), fc.ctr)
	fc.declare(n, sort)
	return n
}

func isAtom(t string) bool {
	return !strings.ContainsAny(t, " (") || (strings.HasPrefix(t, "|") && strings.HasSuffix(t, "|") && strings.Count(t, "|") == 2) ||
		(strings.HasPrefix(t, "(_ bv") && strings.Count(t, "(") == 1)
}

func (fc *FnCtx) def(hint, sort, term string) string {
	if isAtom(term) {
		return term
	}
	fc.ctr++
	n := fmt.Sprintf("|%s!%d|", sanitize(hint), fc.ctr)
	if strings.HasPrefix(sort, "(Array ") {
		// arrays are named by constants (not macros), so that they can occur in quantifier patterns
		fc.declare(n, sort)
		fc.items = append(fc.items, fmt.Sprintf("(assert (= %s %s))", n, term))
		return n
	}
	fc.items = append(fc.items, fmt.Sprintf("(define-fun %s () %s %s)", n, sort, term))
	if l, ok := linTab[term]; ok {
		linTab[n] = l
	}
	return n
}

// assume adds a fact that holds whenever the current block is reached.
func (fc *FnCtx) assume(cond string) {
	if cond == "true" {
		return
	}
	fc.items = append(fc.items, fmt.Sprintf("(assert %s)", implies(fc.reach, cond)))
}

func (fc *FnCtx) assumeGlobal(cond string) {
	if cond == "true" {
		return
	}
	fc.items = append(fc.items, fmt.Sprintf("(assert %s)", cond))
}

func (fc *FnCtx) oblige(kind, label, goal string, pos token.Pos, props []string, text string) *Obl {
	base := fc.name + "#" + kind + "." + label
	fc.oblNames[base]++
	name := base
	if n := fc.oblNames[base]; n > 1 {
		name = fmt.Sprintf("%s~%d", base, n)
	}
	o := &Obl{Fn: fc.name, Name: name, Kind: kind, Label: label, Props: props, Goal: goal, Reach: fc.reach,
		NItems: len(fc.items), fc: fc, Contract: text}
	if pos.IsValid() {
		o.Pos = fc.e.prog.Fset.Position(pos)
	}
	o.Watch = append([]watch(nil), fc.watchBase...)
	fc.obls = append(fc.obls, o)
	return o
}

// script renders the SMT-LIB text of one obligation.
func (o *Obl) nQuant() int {
	n := 0
	for _, it := range o.fc.items[:o.NItems] {
		if strings.Contains(it, "(forall ") || strings.Contains(it, "(exists ") {
			n++
		}
	}
	return n
}

func (o *Obl) script(withModel bool) string {
	fc := o.fc
	var b strings.Builder
	b.WriteString("(set-option :produce-models true)\n(set-logic ALL)\n")
	b.WriteString("; obligation " + o.Name + "\n")
	if o.Pos.IsValid() {
		fmt.Fprintf(&b, "; at %s\n", o.Pos)
	}
	if o.Contract != "" {
		fmt.Fprintf(&b, "; clause: %s\n", o.Contract)
	}
	for _, d := range fc.e.preludeDecls() {
		b.WriteString(d + "\n")
	}
	for _, d := range fc.decls {
		b.WriteString(d + "\n")
	}
	nq := 0
	isQuant := func(it string) bool {
		if !(strings.Contains(it, "(forall ") || strings.Contains(it, "(exists ")) {
			return false
		}
		if o.QEngine && strings.Contains(it, "(forall ((i!q ") {
			return false // engine axiom: kept
		}
		return true
	}
	if o.QSuffix > 0 || o.QEngine {
		for _, it := range fc.items[:o.NItems] {
			if isQuant(it) {
				nq++
			}
		}
	}
	qi := 0
	for _, it := range fc.items[:o.NItems] {
		isQ := isQuant(it)
		if isQ {
			qi++
		}
		if isQ && o.QEngine && o.QOnly > 0 {
			if qi != o.QOnly {
				continue
			}
			b.WriteString(it + "\n")
			continue
		}
		if isQ && o.QEngine && o.QSuffix == 0 {
			continue
		}
		if isQ && (o.ExpectSat || o.GroundOnly || (o.QSuffix > 0 && qi <= nq-o.QSuffix)) {
			if strings.HasPrefix(it, "(define-fun ") {
				// keep the name, forget the quantified definition
				f := strings.SplitN(it, " () ", 2)
				name := strings.TrimPrefix(f[0], "(define-fun ")
				rest := f[1]
				var sort string
				if strings.HasPrefix(rest, "(") {
					sort = rest[:matchParen(rest, 0)+1]
				} else {
					sort = strings.SplitN(rest, " ", 2)[0]
				}
				b.WriteString("(declare-const " + name + " " + sort + ")\n")
			}
			continue
		}
		b.WriteString(it + "\n")
	}
	if o.ExpectSat {
		fmt.Fprintf(&b, "(assert %s)\n", and(o.Reach, o.Goal))
	} else if names, sorts, body, ok := splitForall(o.Goal); ok && !o.Canary {
		// A universally quantified goal: refute it at fresh constants (skolemisation - equivalent), and hand the solver the
		// instance at those constants of every assumed fact that is a universal statement over the same sorts (sound: an
		// instance of an assumption). Loop invariants over "all elements so far" are preserved by exactly this instance.
		repl := make([]string, 0, 2*len(names))
		for i, n := range names {
			sk := "|sk!" + strings.Trim(n, "|") + "|"
			fmt.Fprintf(&b, "(declare-const %s %s)\n", sk, sorts[i])
			repl = append(repl, n, sk)
		}
		for _, it := range fc.items[:o.NItems] {
			if !strings.HasPrefix(it, "(assert (forall ((") {
				continue
			}
			ns, ss, fb, ok := splitForall(it[len("(assert ") : len(it)-1])
			if !ok || len(ss) != len(sorts) || strings.HasPrefix(fb, "(! ") {
				continue
			}
			same := true
			r2 := make([]string, 0, 2*len(ns))
			for i := range ss {
				if ss[i] != sorts[i] {
					same = false
				}
				r2 = append(r2, ns[i], repl[2*i+1])
			}
			if same {
				fmt.Fprintf(&b, "(assert %s)\n", strings.NewReplacer(r2...).Replace(fb))
			}
		}
		fmt.Fprintf(&b, "(assert %s)\n", o.Reach)
		fmt.Fprintf(&b, "(assert %s)\n", not(strings.NewReplacer(repl...).Replace(body)))
	} else {
		fmt.Fprintf(&b, "(assert %s)\n", o.Reach)
		fmt.Fprintf(&b, "(assert %s)\n", not(o.Goal))
	}
	b.WriteString("(check-sat)\n")
	if withModel && len(o.Watch) > 0 {
		var ts []string
		for _, w := range o.Watch {
			ts = append(ts, w.Term)
		}
		fmt.Fprintf(&b, "(get-value (%s))\n", strings.Join(ts, " "))
	}
	return b.String()
}

// splitForall takes "(forall ((n1 s1) (n2 s2)) body)" apart.
func splitForall(t string) (names, sorts []string, body string, ok bool) {
	if !strings.HasPrefix(t, "(forall (") || !strings.HasSuffix(t, ")") {
		return
	}
	parts := splitSexp(t[len("(forall ") : len(t)-1])
	if len(parts) != 2 {
		return
	}
	bl := parts[0]
	for _, bd := range splitSexp(bl[1 : len(bl)-1]) {
		ns := splitSexp(bd[1 : len(bd)-1])
		if len(ns) != 2 {
			return nil, nil, "", false
		}
		names = append(names, ns[0])
		sorts = append(sorts, ns[1])
	}
	return names, sorts, parts[1], len(names) > 0
}

// ---------------------------------------------------------------------------
// heap

func (fc *FnCtx) genDefault(gen int, key string) string {
	mk := fmt.Sprintf("%d|%s", gen, key)
	if t, ok := fc.genMemo[mk]; ok {
		return t
	}
	gi := fc.gens[gen]
	var t string
	if len(gi.gens) == 0 {
		t = fmt.Sprintf("|H%d:%s|", gen, sanitize(key))
		fc.declare(t, fc.keySort[key])
	} else {
		t = fc.genDefault(gi.gens[len(gi.gens)-1], key)
		for i := len(gi.gens) - 2; i >= 0; i-- {
			t = ite(gi.conds[i], fc.genDefault(gi.gens[i], key), t)
		}
		// definitions of merged defaults are global facts (they only name things)
		if !isAtom(t) {
			fc.ctr++
			n := fmt.Sprintf("|Hm%d:%s!%d|", gen, sanitize(key), fc.ctr)
			fc.declare(n, fc.keySort[key])
			fc.items = append(fc.items, fmt.Sprintf("(assert (= %s %s))", n, t))
			t = n
		}
	}
	fc.genMemo[mk] = t
	return t
}

func (fc *FnCtx) heapGet(st *State, key, sort string) string {
	if old, ok := fc.keySort[key]; ok && old != sort {
		panic(fmt.Sprintf("heap key %s used at sorts %s and %s", key, old, sort))
	}
	fc.keySort[key] = sort
	if t, ok := st.heap[key]; ok {
		return t
	}
	gen := st.gen
	if gen > 0 && fc.survivesUnknownCode(key) {
		// a key that unknown code cannot change (stable ghost, construction-only field) and that has not been touched so far
		// in this function still has its entry value: havocAll only keeps the keys it already knows
		gen = 0
	}
	t := fc.genDefault(gen, key)
	st.heap[key] = t
	return t
}

// survivesUnknownCode: the classes of heap keys havocAll keeps (see there).
func (fc *FnCtx) survivesUnknownCode(key string) bool {
	if key == "ghost:chancap" {
		return true
	}
	if strings.HasPrefix(key, "ghost:") {
		name := strings.TrimPrefix(key, "ghost:")
		if i := strings.IndexAny(name, ".@"); i >= 0 {
			name = name[:i]
		}
		if g, ok := fc.e.specs.Ghosts[name]; ok && g.Stable {
			return true
		}
		return false
	}
	if m := initOnlyKeyRe.FindString(key); m != "" && fc.e.initOnly[m] {
		return true
	}
	return false
}

func (fc *FnCtx) heapSet(st *State, key, sort, term string) {
	fc.keySort[key] = sort
	n := fc.def("h", sort, term)
	st.heap[key] = n
	st.hac[key] = st.ac
	// remember "n = store(arr, ref, _)" so that writes to objects allocated by this function can be peeled off
	if strings.HasPrefix(term, "(store ") {
		if parts := splitSexp(term[len("(store ") : len(term)-1]); len(parts) == 3 {
			if fc.peel == nil {
				fc.peel = map[string][2]string{}
			}
			fc.peel[n] = [2]string{parts[0], parts[1]}
		}
	}
}

// splitSexp splits the top-level items of a space-separated s-expression list.
func splitSexp(s string) []string {
	var out []string
	d := 0
	start := -1
	inBar := false
	for i := 0; i < len(s); i++ {
		c := s[i]
		if c == '|' {
			inBar = !inBar
		}
		if inBar {
			if start < 0 {
				start = i
			}
			continue
		}
		switch c {
		case '(':
			if d == 0 && start < 0 {
				start = i
			}
			d++
		case ')':
			d--
		case ' ':
			if d == 0 && start >= 0 {
				out = append(out, s[start:i])
				start = -1
			}
		default:
			if start < 0 {
				start = i
			}
		}
	}
	if start >= 0 {
		out = append(out, s[start:])
	}
	return out
}

// peelFresh strips stores from a heap array version back towards the function's entry version. A store at a ref this
// function allocated needs no condition; any other store contributes the guard "ref >= ac0" (the object written was
// allocated after entry), which the solver has to establish. ok: the entry version of the key was reached.
func (fc *FnCtx) peelFresh(name string) (string, bool) {
	b, _, ok := fc.peelGuarded(name)
	return b, ok
}

func (fc *FnCtx) peelGuarded(name string) (string, []string, bool) {
	var guards []string
	for i := 0; i < 64; i++ {
		p, ok := fc.peel[name]
		if !ok {
			break
		}
		if !(fc.localRefs[p[1]] || p[1] == "!merged") {
			g := sx(">=", p[1], "ac0")
			if alt, ok := fc.peelAlt[name]; ok {
				g = or(g, alt) // a havoc of an empty index range changes nothing
			}
			guards = append(guards, g)
		}
		name = p[0]
	}
	return name, guards, strings.HasPrefix(name, "|H0:")
}

var initOnlyKeyRe = regexp.MustCompile(`^.*?\.f\d+_`)

func (fc *FnCtx) havocAll(st *State) {
	// allocation counter only grows
	nac := fc.fresh("ac", sInt)
	fc.assume(sx(">=", nac, st.ac))
	st.ac = nac
	// ghosts declared stable survive calls to unknown code (recorded assumption)
	keep := map[string]string{}
	for name, g := range fc.e.specs.Ghosts {
		if !g.Stable {
			continue
		}
		for k := range fc.keySort {
			if strings.HasPrefix(k, "ghost:"+name+".") || strings.HasPrefix(k, "ghost:"+name+"@") {
				keep[k] = fc.heapGet(st, k, fc.keySort[k])
				fc.assumptions["unknown code leaves the ghost state '"+name+"' as it found it (declared stable: only the library's own code, which is under contract, changes it)"] = true
			}
		}
	}
	// fields written only at construction (load.go findInitOnlyFields) cannot be changed by unknown code
	if srt, ok := fc.keySort["ghost:chancap"]; ok {
		keep["ghost:chancap"] = fc.heapGet(st, "ghost:chancap", srt) // a channel's capacity never changes
	}
	for k := range fc.keySort {
		if m := initOnlyKeyRe.FindString(k); m != "" && fc.e.initOnly[m] {
			keep[k] = fc.heapGet(st, k, fc.keySort[k])
			fc.assumptions["fields written only at construction are left unchanged by unknown code (SSA scan of every repository function): "+strings.TrimSuffix(m, "_")] = true
		}
	}
	// private cells (locals captured only by deferred / directly called closures) keep their content
	type cellVal struct {
		loc *Loc
		v   V
	}
	var cells []cellVal
	for _, loc := range fc.privateCells {
		cells = append(cells, cellVal{loc, fc.load(st, loc)})
	}
	fc.gens = append(fc.gens, &genInfo{ac: nac})
	st.gen = len(fc.gens) - 1
	st.heap = map[string]string{}
	st.hac = map[string]string{}
	for k, v := range keep {
		st.heap[k] = v
	}
	for _, c := range cells {
		fc.store(st, c.loc, c.v)
	}
}

func arrSort(idx, elem string) string { return fmt.Sprintf("(Array %s %s)", idx, elem) }

// fieldKeySort: heap arrays of struct fields map object refs to component values.
func fieldSort(comp string) string { return arrSort(sInt, comp) }
func memSort(comp string) string   { return arrSort(sInt, arrSort(sBV(64), comp)) }

func (fc *FnCtx) mergeStates(conds []string, sts []*State) *State {
	if len(sts) == 1 {
		return sts[0].clone()
	}
	out := &State{heap: map[string]string{}, hac: map[string]string{}}
	for _, s := range sts {
		out.spawned = out.spawned || s.spawned
	}
	sameGen := true
	for _, s := range sts[1:] {
		if s.gen != sts[0].gen {
			sameGen = false
		}
	}
	if sameGen {
		out.gen = sts[0].gen
	} else {
		gi := &genInfo{}
		for i, s := range sts {
			gi.gens = append(gi.gens, s.gen)
			gi.conds = append(gi.conds, conds[i])
		}
		fc.gens = append(fc.gens, gi)
		out.gen = len(fc.gens) - 1
	}
	keys := map[string]bool{}
	for _, s := range sts {
		for k := range s.heap {
			keys[k] = true
		}
	}
	ks := make([]string, 0, len(keys))
	for k := range keys {
		ks = append(ks, k)
	}
	sort.Strings(ks)
	for _, k := range ks {
		srt := fc.keySort[k]
		t := fc.heapGet(sts[len(sts)-1], k, srt)
		for i := len(sts) - 2; i >= 0; i-- {
			t = ite(conds[i], fc.heapGet(sts[i], k, srt), t)
		}
		out.heap[k] = fc.def("hm", srt, t)
		// if every incoming version peels (through writes at locally allocated refs) to the same array, so does the merge
		if n := out.heap[k]; fc.peel != nil {
			base := ""
			same := true
			for _, s := range sts {
				p, _ := fc.peelFresh(fc.heapGet(s, k, srt))
				if base == "" {
					base = p
				} else if p != base {
					same = false
				}
			}
			if same && base != "" && base != n {
				fc.peel[n] = [2]string{base, "!merged"}
			}
		}
	}
	ac := sts[len(sts)-1].ac
	for i := len(sts) - 2; i >= 0; i-- {
		ac = ite(conds[i], sts[i].ac, ac)
	}
	out.ac = fc.def("ac", sInt, ac)
	for _, k := range ks {
		same := true
		for _, s := range sts[1:] {
			if fc.acOfKey(s, k) != fc.acOfKey(sts[0], k) {
				same = false
			}
		}
		if same {
			out.hac[k] = fc.acOfKey(sts[0], k)
		} else {
			out.hac[k] = out.ac
		}
	}
	if !sameGen {
		fc.gens[out.gen].ac = out.ac
	}
	return out
}

// load reads a value of type loc.Ty from the location.
// refBound: heap invariant of the entry state: every allocation id stored in the heap is below ac0.
func (fc *FnCtx) refBound(arr string, mem bool) {
	if !strings.HasPrefix(arr, "|H0:") || fc.declared["refbound:"+arr] {
		return
	}
	fc.declared["refbound:"+arr] = true
	if mem {
		fc.assumeGlobal(fmt.Sprintf("(forall ((i!q Int) (j!q (_ BitVec 64))) (! (=> (< i!q ac0) (< (select (select %s i!q) j!q) ac0)) :pattern ((select (select %s i!q) j!q))))", arr, arr))
	} else {
		fc.assumeGlobal(fmt.Sprintf("(forall ((i!q Int)) (! (=> (< i!q ac0) (< (select %s i!q) ac0)) :pattern ((select %s i!q))))", arr, arr))
	}
}

func (fc *FnCtx) load(st *State, loc *Loc) V {
	v := V{Ty: loc.Ty}
	if loc.Kind == locField && strings.HasPrefix(loc.S, "glob:") {
		if k, ok := fc.e.errGlobals[loc.S]; ok {
			if fc.e.extErrGlobals[loc.S] {
				fc.assumptions["error variable "+strings.TrimPrefix(loc.S, "glob:")+" of another package is a constant: initialised to a distinct non-nil value and never reassigned"] = true
			}
			return fc.errGlobal(k, loc.Ty)
		}
	}
	cs := fc.e.comps(loc.Ty)
	for _, c := range cs {
		if c.Ref {
			if loc.Kind == locField {
				fc.refBound(fc.heapGet(st, loc.S+"."+loc.Pre+c.Suf, fieldSort(c.Sort)), false)
			} else {
				fc.refBound(fc.heapGet(st, fc.e.memKey(loc.Ty)+"."+c.Suf, memSort(c.Sort)), true)
			}
		}
	}
	switch loc.Kind {
	case locField:
		for _, c := range cs {
			key := loc.S + "." + loc.Pre + c.Suf
			arr := fc.heapGet(st, key, fieldSort(c.Sort))
			v.T = append(v.T, sx("select", arr, loc.Ref))
		}
	case locElem:
		mk := fc.e.memKey(loc.Ty)
		for _, c := range cs {
			key := mk + "." + c.Suf
			arr := fc.heapGet(st, key, memSort(c.Sort))
			v.T = append(v.T, sx("select", sx("select", arr, loc.Ref), loc.Idx))
		}
	}
	return v
}

// errGlobal: the value of an error variable that findErrGlobals showed to be a constant.
func (fc *FnCtx) errGlobal(k int, ty types.Type) V {
	name := fmt.Sprintf("errg!%d", k)
	if !fc.declared[name] {
		fc.declare(name, sInt)
		fc.assumeGlobal(sx("and", sx(">", name, "0"), sx("<", name, "ac0")))
		for j := range fc.e.errGlobalNames {
			o := fmt.Sprintf("errg!%d", j)
			if j != k && fc.declared[o] {
				fc.assumeGlobal(sx("not", sx("=", name, o)))
			}
		}
	}
	tag := fc.tagTerm(types.NewPointer(fc.e.errorStringType()))
	return V{Ty: ty, T: []string{tag, name}}
}

func (fc *FnCtx) store(st *State, loc *Loc, v V) {
	cs := fc.e.comps(loc.Ty)
	if len(cs) != len(v.T) {
		panic(fmt.Sprintf("store: component mismatch for %s: %d vs %d", loc.Ty, len(cs), len(v.T)))
	}
	switch loc.Kind {
	case locField:
		for i, c := range cs {
			key := loc.S + "." + loc.Pre + c.Suf
			arr := fc.heapGet(st, key, fieldSort(c.Sort))
			fc.heapSet(st, key, fieldSort(c.Sort), sx("store", arr, loc.Ref, v.T[i]))
			fc.noteWrite(key)
		}
	case locElem:
		mk := fc.e.memKey(loc.Ty)
		for i, c := range cs {
			key := mk + "." + c.Suf
			arr := fc.heapGet(st, key, memSort(c.Sort))
			inner := sx("store", sx("select", arr, loc.Ref), loc.Idx, v.T[i])
			fc.heapSet(st, key, memSort(c.Sort), sx("store", arr, loc.Ref, inner))
			fc.noteWrite(key)
		}
	}
}

// ---------------------------------------------------------------------------
// values

func (fc *FnCtx) zero(t types.Type) V {
	v := V{Ty: t}
	for _, c := range fc.e.comps(t) {
		v.T = append(v.T, zeroOf(c.Sort))
	}
	if isString(t) {
		v.T[0] = fc.strLit("")
	}
	return v
}

func zeroOf(sort string) string {
	switch {
	case sort == sInt:
		return "0"
	case sort == sBool:
		return "false"
	}
	return bvLit(0, bvWidth(sort))
}

const emptyStrSid = "(- 1)"

func (fc *FnCtx) strLit(s string) string {
	if s == "" {
		return emptyStrSid
	}
	id, ok := fc.e.strLits[s]
	if !ok {
		id = len(fc.e.strLits) + 2
		fc.e.strLits[s] = id
	}
	t := fmt.Sprintf("(- %d)", id)
	key := "strlit:" + t
	if !fc.declared[key] {
		fc.declared[key] = true
		fc.assumeGlobal(eq(sx("slen", t), bvLit(uint64(len(s)), 64)))
		if len(s) <= 64 {
			for i := 0; i < len(s); i++ {
				fc.assumeGlobal(eq(sx("select", sx("strarr", t), bvLit(uint64(i), 64)), bvLit(uint64(s[i]), 8)))
			}
		}
	}
	return t
}

// wf returns the type invariant of a symbolic value.
func (fc *FnCtx) wf(v V, st *State) string {
	return fc.wfAc(v, st.ac)
}

func (fc *FnCtx) wfAc(v V, acTerm string) string {
	st := &State{ac: acTerm}
	t := v.Ty
	if t == nil {
		return "true"
	}
	if isTimeStruct(t) {
		return "true"
	}
	switch u := t.Underlying().(type) {
	case *types.Slice:
		b, o, l, c := v.T[0], v.T[1], v.T[2], v.T[3]
		return and(sx(">=", b, "0"), sx("<", b, st.ac),
			sx("bvsle", bvLit(0, 64), l), sx("bvsle", l, c), sx("bvsle", bvLit(0, 64), o),
			sx("bvult", c, bvLit(1<<46, 64)), sx("bvult", o, bvLit(1<<46, 64)),
			implies(eq(b, "0"), and(eq(l, bvLit(0, 64)), eq(c, bvLit(0, 64)))))
	case *types.Basic:
		if u.Info()&types.IsString != 0 {
			sl := sx("slen", v.T[0])
			return and(sx("bvsle", bvLit(0, 64), sl), sx("bvult", sl, bvLit(1<<46, 64)),
				eq(eq(sl, bvLit(0, 64)), eq(v.T[0], emptyStrSid)))
		}
		return "true"
	case *types.Pointer, *types.Map, *types.Chan, *types.Signature:
		return and(sx(">=", v.T[0], "0"), sx("<", v.T[0], st.ac))
	case *types.Interface:
		return and(sx(">=", v.T[0], "0"), implies(eq(v.T[0], "0"), eq(v.T[1], "0")),
			implies(sx("isptrtag", v.T[0]), and(sx(">=", v.T[1], "0"), sx("<", v.T[1], st.ac))))
	case *types.Struct:
		if fc.e.isOpaqueStruct(t) {
			return "true"
		}
		var cs []string
		off := 0
		for i := 0; i < u.NumFields(); i++ {
			ft := u.Field(i).Type()
			n := len(fc.e.comps(ft))
			cs = append(cs, fc.wfAc(V{Ty: ft, T: v.T[off : off+n]}, acTerm))
			off += n
		}
		return and(cs...)
	case *types.Tuple:
		var cs []string
		off := 0
		for i := 0; i < u.Len(); i++ {
			ft := u.At(i).Type()
			n := len(fc.e.comps(ft))
			cs = append(cs, fc.wfAc(V{Ty: ft, T: v.T[off : off+n]}, acTerm))
			off += n
		}
		return and(cs...)
	}
	return "true"
}

func (fc *FnCtx) freshV(t types.Type, hint string) V {
	v := V{Ty: t}
	for _, c := range fc.e.comps(t) {
		v.T = append(v.T, fc.fresh(hint+"_"+c.Suf, c.Sort))
	}
	return v
}

func (fc *FnCtx) freshWF(t types.Type, hint string, st *State) V {
	v := fc.freshV(t, hint)
	fc.assume(fc.wf(v, st))
	return v
}

// defV names the components of a value.
func (fc *FnCtx) defV(hint string, v V) V {
	cs := fc.e.comps(v.Ty)
	out := V{Ty: v.Ty, Loc: v.Loc}
	for i, t := range v.T {
		out.T = append(out.T, fc.def(hint+"_"+cs[i].Suf, cs[i].Sort, t))
	}
	return out
}

func (fc *FnCtx) iteV(c string, a, b V) V {
	out := V{Ty: a.Ty}
	if len(a.T) != len(b.T) {
		panic("iteV: component mismatch " + fmt.Sprint(a.Ty, b.Ty))
	}
	for i := range a.T {
		out.T = append(out.T, ite(c, a.T[i], b.T[i]))
	}
	return out
}

// sub extracts the components of member i of a struct or tuple value.
func (fc *FnCtx) sub(v V, i int) V {
	off := 0
	var ft types.Type
	switch u := v.Ty.Underlying().(type) {
	case *types.Struct:
		for j := 0; j < i; j++ {
			off += len(fc.e.comps(u.Field(j).Type()))
		}
		ft = u.Field(i).Type()
	case *types.Tuple:
		for j := 0; j < i; j++ {
			off += len(fc.e.comps(u.At(j).Type()))
		}
		ft = u.At(i).Type()
	default:
		panic("sub on " + v.Ty.String())
	}
	n := len(fc.e.comps(ft))
	return V{Ty: ft, T: v.T[off : off+n]}
}

// locOf turns a pointer value into a location.
func (fc *FnCtx) locOf(p V) *Loc {
	if p.Loc != nil {
		return p.Loc
	}
	pt, ok := p.Ty.Underlying().(*types.Pointer)
	if !ok {
		panic("locOf: not a pointer: " + p.Ty.String())
	}
	el := pt.Elem()
	if isStruct(el) && !fc.e.isOpaqueStruct(el) {
		return &Loc{Kind: locField, S: fc.e.structKey(el), Ref: p.T[0], Ty: el}
	}
	return &Loc{Kind: locField, S: "cell:" + fc.e.shortType(el), Ref: p.T[0], Ty: el}
}

// ---------------------------------------------------------------------------
// boxing of interface payloads

func (fc *FnCtx) boxFns(t types.Type) (box string, unbox []string) {
	k := sanitize(fc.e.shortType(t))
	cs := fc.e.comps(t)
	box = "|box:" + k + "|"
	var args []string
	for _, c := range cs {
		args = append(args, c.Sort)
	}
	fc.declareFun(box, args, sInt)
	for _, c := range cs {
		u := "|unbox:" + k + ":" + c.Suf + "|"
		fc.declareFun(u, []string{sInt}, c.Sort)
		unbox = append(unbox, u)
	}
	return
}

func singleInt(cs []Comp) bool { return len(cs) == 1 && cs[0].Sort == sInt }

func (fc *FnCtx) makeIface(v V, ifaceTy types.Type) V {
	if isIface(v.Ty) {
		return V{Ty: ifaceTy, T: v.T}
	}
	tag := fc.tagTerm(v.Ty)
	cs := fc.e.comps(v.Ty)
	var id string
	if isPointer(v.Ty) || isMap(v.Ty) {
		id = v.T[0]
		// a nil pointer in an interface is still a non-nil interface: tag stays
	} else if len(cs) == 0 {
		id = "0"
	} else {
		box, unbox := fc.boxFns(v.Ty)
		id = fc.def("box", sInt, sx(box, v.T...))
		for i, u := range unbox {
			fc.assumeGlobal(eq(sx(u, id), v.T[i]))
		}
	}
	return V{Ty: ifaceTy, T: []string{tag, id}}
}

func (fc *FnCtx) unbox(iv V, t types.Type) V {
	cs := fc.e.comps(t)
	out := V{Ty: t}
	if isPointer(t) || isMap(t) {
		out.T = []string{iv.T[1]}
		return out
	}
	if len(cs) == 0 {
		return out
	}
	_, unbox := fc.boxFns(t)
	for _, u := range unbox {
		out.T = append(out.T, sx(u, iv.T[1]))
	}
	return out
}

// implFn: does dynamic type tag implement interface I.
func (fc *FnCtx) implPred(iface types.Type) string {
	k := sanitize(fc.e.shortType(iface))
	name := "|impl:" + k + "|"
	if !fc.declared[name] {
		fc.declareFun(name, []string{sInt}, sBool)
		fc.ifaceSeen[name] = iface
		for id, t := range fc.tagsUsed {
			fc.implFact(name, iface, id, t)
		}
	}
	return name
}

// ---------------------------------------------------------------------------
// source text for obligation names

func (fc *FnCtx) srcText(pos token.Pos, match func(ast.Node) bool) string {
	syn := fc.fn.Syntax()
	if syn == nil || !pos.IsValid() {
		return ""
	}
	var found ast.Node
	ast.Inspect(syn, func(n ast.Node) bool {
		if n == nil || found != nil {
			return false
		}
		if n.Pos() <= pos && pos < n.End() {
			if match(n) {
				found = n
				// keep looking for a tighter match inside
				var inner ast.Node
				ast.Inspect(n, func(m ast.Node) bool {
					if m == nil || m == n {
						return m == n
					}
					if m.Pos() <= pos && pos < m.End() && match(m) {
						inner = m
					}
					return true
				})
				if inner != nil {
					found = inner
				}
				return false
			}
			return true
		}
		return false
	})
	if found == nil {
		return ""
	}
	var b bytes.Buffer
	printer.Fprint(&b, fc.e.prog.Fset, found)
	s := strings.Join(strings.Fields(b.String()), " ")
	if len(s) > 80 {
		s = s[:80]
	}
	return s
}

func (fc *FnCtx) safe(kind string, goal string, pos token.Pos, match func(ast.Node) bool) {
	if fc.c != nil && fc.c.NoSafety {
		return
	}
	txt := fc.srcText(pos, match)
	if txt == "" {
		txt = "?"
	}
	fc.oblige("safe", kind+"{"+txt+"}", goal, pos, nil, "")
}

// ---------------------------------------------------------------------------
// constants

func (fc *FnCtx) constV(c *ssa.Const) V {
	t := c.Type()
	if c.Value == nil {
		return fc.zero(t)
	}
	switch u := t.Underlying().(type) {
	case *types.Basic:
		switch {
		case u.Info()&types.IsBoolean != 0:
			if constant.BoolVal(c.Value) {
				return V{Ty: t, T: []string{"true"}}
			}
			return V{Ty: t, T: []string{"false"}}
		case u.Info()&types.IsInteger != 0:
			w := intWidth(u)
			var val uint64
			if i, ok := constant.Int64Val(constant.ToInt(c.Value)); ok {
				val = uint64(i)
			} else if ui, ok := constant.Uint64Val(constant.ToInt(c.Value)); ok {
				val = ui
			}
			return V{Ty: t, T: []string{bvLit(val, w)}}
		case u.Info()&types.IsString != 0:
			return V{Ty: t, T: []string{fc.strLit(constant.StringVal(c.Value))}}
		case u.Info()&types.IsFloat != 0:
			f, _ := constant.Float64Val(c.Value)
			if f == 0 {
				return V{Ty: t, T: []string{zeroOf(fc.e.comps(t)[0].Sort)}}
			}
			return fc.freshV(t, "fconst")
		}
	}
	panic(unsupported("constant of type " + t.String()))
}

func (fc *FnCtx) val(v ssa.Value) V {
	switch x := v.(type) {
	case *ssa.Const:
		return fc.constV(x)
	case *ssa.Global:
		return V{Ty: x.Type(), T: []string{"0"}, Loc: &Loc{Kind: locField, S: "glob:" + fc.e.pkgRepl.Replace(x.String()), Ref: "0", Ty: x.Type().(*types.Pointer).Elem()}}
	case *ssa.Function:
		return V{Ty: x.Type(), T: []string{fmt.Sprint(fc.e.funcID(x))}}
	case *ssa.Builtin:
		return V{Ty: x.Type()}
	}
	if r, ok := fc.vals[v]; ok {
		return r
	}
	panic(fmt.Sprintf("value %s (%T) not yet defined in %s", v.Name(), v, fc.name))
}

// tagTerm: the dynamic-type tag of t. Pointer-typed (and map-typed) dynamic types are announced to the solver, so
// that the payload id of such an interface value is known to be an allocation id.
func (fc *FnCtx) tagTerm(t types.Type) string {
	id := fmt.Sprint(fc.e.tagOf(t))
	if (isPointer(t) || isMap(t)) && !fc.declared["ptrtag:"+id] {
		fc.declared["ptrtag:"+id] = true
		fc.assumeGlobal(sx("isptrtag", id))
	}
	if !fc.declared["tagused:"+id] {
		fc.declared["tagused:"+id] = true
		if fc.tagsUsed == nil {
			fc.tagsUsed = map[string]types.Type{}
		}
		fc.tagsUsed[id] = t
		for name, iface := range fc.ifaceSeen {
			fc.implFact(name, iface, id, t)
		}
	}
	return id
}

// implFact: whether a concrete dynamic type implements an interface is a static fact of the program's types.
func (fc *FnCtx) implFact(pred string, iface types.Type, id string, t types.Type) {
	it, ok := iface.Underlying().(*types.Interface)
	if !ok {
		return
	}
	if _, isIface := t.Underlying().(*types.Interface); isIface {
		return
	}
	k := "implfact:" + pred + ":" + id
	if fc.declared[k] {
		return
	}
	fc.declared[k] = true
	if types.Implements(t, it) {
		fc.decls = append(fc.decls, fmt.Sprintf("(assert (%s %s))", pred, id))
	} else {
		fc.decls = append(fc.decls, fmt.Sprintf("(assert (not (%s %s)))", pred, id))
	}
}
