// Bounded stand-in for C18 (struct marshalling / unmarshalling): reflect.go is outside the deductive verifier's subset,
// so this harness EXPLORES a fixed family of struct types over generated values. Nothing here is a proof.
// usage: c18 -n <random cases per struct type> -seed <n> -out <evidence.json> -replay <dir>
package main

import (
	"bytes"
	"encoding/json"
	"flag"
	"fmt"
	"math"
	"math/rand"
	"net"
	"os"
	"path/filepath"
	"reflect"
	"strings"
	"time"

	"github.com/fiorix/go-diameter/v4/diam"
	"github.com/fiorix/go-diameter/v4/diam/datatype"
	"github.com/fiorix/go-diameter/v4/diam/dict"
)

// a generated dictionary: one AVP per data type that the base dictionary does not offer, plus a group of them
const extraDict = `<?xml version="1.0" encoding="UTF-8"?>
<diameter>
  <application id="0" type="base" name="Base">
    <avp name="X-Int32" code="9001" must="M" may="P" must-not="V" may-encrypt="Y"><data type="Integer32"/></avp>
    <avp name="X-Int64" code="9002" must="M" may="P" must-not="V" may-encrypt="Y"><data type="Integer64"/></avp>
    <avp name="X-Float32" code="9003" must="M" may="P" must-not="V" may-encrypt="Y"><data type="Float32"/></avp>
    <avp name="X-Float64" code="9004" must="M" may="P" must-not="V" may-encrypt="Y"><data type="Float64"/></avp>
    <avp name="X-IPv4" code="9005" must="" may="P" must-not="V" may-encrypt="Y"><data type="IPv4"/></avp>
    <avp name="X-Filter" code="9006" must="M" may="P" must-not="V" may-encrypt="Y"><data type="IPFilterRule"/></avp>
    <avp name="X-Vendor-U64" code="9007" must="V,M" may="P" must-not="-" may-encrypt="Y" vendor-id="10415"><data type="Unsigned64"/></avp>
    <avp name="X-Group" code="9008" must="M" may="P" must-not="V" may-encrypt="Y"><data type="Grouped">
      <rule avp="X-Int32" required="false" max="1"/><rule avp="X-Float64" required="false" max="1"/><rule avp="X-Inner" required="false"/></data></avp>
    <avp name="X-Inner" code="9009" must="M" may="P" must-not="V" may-encrypt="Y"><data type="Grouped">
      <rule avp="X-Int64" required="false" max="1"/><rule avp="Session-Id" required="false" max="1"/></data></avp>
    <avp name="X-Time" code="9010" must="M" may="P" must-not="V" may-encrypt="Y"><data type="Time"/></avp>
  </application>
</diameter>`

// ---- the family of struct types (every field shape of the statement) --------------------------------------------

type Scalars struct {
	OriginHost  datatype.DiameterIdentity `avp:"Origin-Host"`
	OriginRealm string                    `avp:"Origin-Realm"`
	ResultCode  uint32                    `avp:"Result-Code"`
	StateID     datatype.Unsigned32       `avp:"Origin-State-Id"`
	SubSession  uint64                    `avp:"Accounting-Sub-Session-Id"`
	ReAuth      datatype.Enumerated       `avp:"Re-Auth-Request-Type"`
	Redirect    datatype.DiameterURI      `avp:"Redirect-Host"`
	Class       datatype.OctetString      `avp:"Class"`
	Session     datatype.UTF8String       `avp:"Session-Id"`
	I32         int32                     `avp:"X-Int32"`
	I64         datatype.Integer64        `avp:"X-Int64"`
	F32         float32                   `avp:"X-Float32"`
	F64         datatype.Float64          `avp:"X-Float64"`
	IP4         datatype.IPv4             `avp:"X-IPv4"`
	Filter      datatype.IPFilterRule     `avp:"X-Filter"`
	VU64        datatype.Unsigned64       `avp:"X-Vendor-U64"`
	When        time.Time                 `avp:"X-Time"`
	Stamp       datatype.Time             `avp:"Event-Timestamp"`
	Addr        datatype.Address          `avp:"Host-IP-Address"`
}

type Inner struct {
	I64     int64  `avp:"X-Int64"`
	Session string `avp:"Session-Id,omitempty"`
}

type Group struct {
	I32   datatype.Integer32 `avp:"X-Int32"`
	F64   *float64           `avp:"X-Float64"`
	Inner []*Inner           `avp:"X-Inner"`
}

type Embedded struct {
	ProductName string  `avp:"Product-Name"`
	Firmware    *uint32 `avp:"Firmware-Revision"`
}

type Shapes struct {
	Embedded
	Vendors  []uint32                  `avp:"Supported-Vendor-Id"`
	Addrs    []datatype.Address        `avp:"Host-IP-Address"`
	Classes  []datatype.OctetString    `avp:"Class"`
	State    *datatype.Unsigned32      `avp:"Origin-State-Id"`
	Realm    *string                   `avp:"Origin-Realm"`
	G        Group                     `avp:"X-Group"`
	Anon     struct {
		Host  datatype.DiameterIdentity `avp:"Proxy-Host"`
		State datatype.OctetString      `avp:"Proxy-State"`
	} `avp:"Proxy-Info"`
	Opt      *Inner                    `avp:"X-Inner"`
	ErrMsg   string                    `avp:"Error-Message,omitempty"`
	Lifetime uint32                    `avp:"Authorization-Lifetime,omitempty"`
}

type AVPs struct {
	Host   *diam.AVP   `avp:"Origin-Host"`
	Routes []*diam.AVP `avp:"Route-Record"`
	Copy   diam.AVP    `avp:"Result-Code"`
}

// ---- generation ------------------------------------------------------------------------------------------------

var corners32 = []uint32{0, 1, 0x7fffffff, 0x80000000, 0xffffffff, 2001, 5012}
var corners64 = []uint64{0, 1, 1 << 63, math.MaxUint64, 1<<32 - 1, 1 << 32}

func genStr(r *rand.Rand) string {
	n := []int{0, 1, 2, 3, 4, 5, 7, 8, 31, 64}[r.Intn(10)]
	b := make([]byte, n)
	for i := range b {
		b[i] = byte(32 + r.Intn(95))
	}
	return string(b)
}
func genBytes(r *rand.Rand) string {
	n := []int{0, 1, 3, 4, 5, 9, 16}[r.Intn(7)]
	b := make([]byte, n)
	r.Read(b)
	return string(b)
}
func gen32(r *rand.Rand) uint32 {
	if r.Intn(3) == 0 {
		return corners32[r.Intn(len(corners32))]
	}
	return r.Uint32()
}
func gen64(r *rand.Rand) uint64 {
	if r.Intn(3) == 0 {
		return corners64[r.Intn(len(corners64))]
	}
	return r.Uint64()
}
func genTime(r *rand.Rand) time.Time {
	// representable range of the 32-bit field under the era rule, both sides of 2036-02-07
	lo, hi := int64(-61505152), int64(4233462143)
	c := []int64{lo, hi, 2085978495, 2085978496, 0, 1}
	if r.Intn(3) == 0 {
		return time.Unix(c[r.Intn(len(c))], 0).UTC()
	}
	return time.Unix(lo+r.Int63n(hi-lo+1), 0).UTC()
}
func genAddr(r *rand.Rand) datatype.Address {
	if r.Intn(2) == 0 {
		return datatype.Address(net.IPv4(byte(1+r.Intn(223)), byte(r.Intn(256)), byte(r.Intn(256)), byte(r.Intn(256))).To4())
	}
	ip := make(net.IP, 16)
	r.Read(ip)
	ip[0] = 0x20 // a real IPv6 address, never the v4-mapped prefix
	return datatype.Address(ip)
}
func genF32(r *rand.Rand) float32 {
	c := []uint32{0, 0x80000000, 1, 0x7f800000, 0xff800000, 0x7fc00001, 0x00800000, 0x3f800000}
	if r.Intn(3) == 0 {
		return math.Float32frombits(c[r.Intn(len(c))])
	}
	return math.Float32frombits(r.Uint32())
}
func genF64(r *rand.Rand) float64 {
	c := []uint64{0, 1 << 63, 1, 0x7ff0000000000000, 0x7ff8000000000001, 0x3ff0000000000000}
	if r.Intn(3) == 0 {
		return math.Float64frombits(c[r.Intn(len(c))])
	}
	return math.Float64frombits(r.Uint64())
}

func genScalars(r *rand.Rand) *Scalars {
	return &Scalars{
		OriginHost: datatype.DiameterIdentity(genStr(r)), OriginRealm: genStr(r), ResultCode: gen32(r), StateID: datatype.Unsigned32(gen32(r)),
		SubSession: gen64(r), ReAuth: datatype.Enumerated(int32(gen32(r))), Redirect: datatype.DiameterURI(genStr(r)), Class: datatype.OctetString(genBytes(r)),
		Session: datatype.UTF8String(genStr(r)), I32: int32(gen32(r)), I64: datatype.Integer64(gen64(r)), F32: genF32(r), F64: datatype.Float64(genF64(r)),
		IP4: datatype.IPv4(net.IPv4(byte(r.Intn(256)), byte(r.Intn(256)), byte(r.Intn(256)), byte(r.Intn(256))).To4()), Filter: datatype.IPFilterRule(genStr(r)),
		VU64: datatype.Unsigned64(gen64(r)), When: genTime(r), Stamp: datatype.Time(genTime(r)), Addr: genAddr(r),
	}
}
func genInner(r *rand.Rand) *Inner { return &Inner{I64: int64(gen64(r)), Session: genStr(r)} }
func genShapes(r *rand.Rand) *Shapes {
	s := &Shapes{}
	s.ProductName = genStr(r)
	if r.Intn(2) == 0 {
		v := gen32(r)
		s.Firmware = &v
	}
	for i, n := 0, r.Intn(4); i < n; i++ {
		s.Vendors = append(s.Vendors, gen32(r))
	}
	for i, n := 0, r.Intn(4); i < n; i++ {
		s.Addrs = append(s.Addrs, genAddr(r))
	}
	for i, n := 0, r.Intn(4); i < n; i++ {
		s.Classes = append(s.Classes, datatype.OctetString(genBytes(r)))
	}
	if r.Intn(2) == 0 {
		v := datatype.Unsigned32(gen32(r))
		s.State = &v
	}
	if r.Intn(2) == 0 {
		v := genStr(r)
		s.Realm = &v
	}
	s.G.I32 = datatype.Integer32(gen32(r))
	if r.Intn(2) == 0 {
		v := genF64(r)
		s.G.F64 = &v
	}
	for i, n := 0, r.Intn(4); i < n; i++ {
		s.G.Inner = append(s.G.Inner, genInner(r))
	}
	s.Anon.Host = datatype.DiameterIdentity(genStr(r))
	s.Anon.State = datatype.OctetString(genBytes(r))
	if r.Intn(2) == 0 {
		s.Opt = genInner(r)
	}
	if r.Intn(2) == 0 {
		s.ErrMsg = genStr(r)
	}
	if r.Intn(2) == 0 {
		s.Lifetime = gen32(r)
	}
	return s
}
func genAVPs(r *rand.Rand) *AVPs {
	a := &AVPs{}
	if r.Intn(4) != 0 {
		a.Host = diam.NewAVP(264, 0x40, 0, datatype.DiameterIdentity(genStr(r)))
	}
	for i, n := 0, r.Intn(4); i < n; i++ {
		a.Routes = append(a.Routes, diam.NewAVP(282, 0x40, 0, datatype.DiameterIdentity(genStr(r))))
	}
	a.Copy = *diam.NewAVP(268, 0x40, 0, datatype.Unsigned32(gen32(r)))
	return a
}


// ---- generated struct layouts: the same pool of fields in every order, with embedded structs at any position --------
// (reflect.StructOf; added after a seeded change that only showed when an embedded struct follows a tagged field)

type poolField struct {
	name, tag string
	typ       reflect.Type
	gen       func(r *rand.Rand) reflect.Value
}

func ptrTo(v reflect.Value) reflect.Value { p := reflect.New(v.Type()); p.Elem().Set(v); return p }

var fieldPool = []poolField{
	{"OriginHost", `avp:"Origin-Host"`, reflect.TypeOf(datatype.DiameterIdentity("")), func(r *rand.Rand) reflect.Value { return reflect.ValueOf(datatype.DiameterIdentity(genStr(r))) }},
	{"OriginRealm", `avp:"Origin-Realm"`, reflect.TypeOf(""), func(r *rand.Rand) reflect.Value { return reflect.ValueOf(genStr(r)) }},
	{"ResultCode", `avp:"Result-Code"`, reflect.TypeOf(uint32(0)), func(r *rand.Rand) reflect.Value { return reflect.ValueOf(gen32(r)) }},
	{"StateID", `avp:"Origin-State-Id"`, reflect.TypeOf((*datatype.Unsigned32)(nil)), func(r *rand.Rand) reflect.Value {
		if r.Intn(3) == 0 {
			return reflect.Zero(reflect.TypeOf((*datatype.Unsigned32)(nil)))
		}
		return ptrTo(reflect.ValueOf(datatype.Unsigned32(gen32(r))))
	}},
	{"SubSession", `avp:"Accounting-Sub-Session-Id"`, reflect.TypeOf(uint64(0)), func(r *rand.Rand) reflect.Value { return reflect.ValueOf(gen64(r)) }},
	{"Classes", `avp:"Class"`, reflect.TypeOf([]datatype.OctetString(nil)), func(r *rand.Rand) reflect.Value {
		var c []datatype.OctetString
		for i, n := 0, r.Intn(4); i < n; i++ {
			c = append(c, datatype.OctetString(genBytes(r)))
		}
		return reflect.ValueOf(c)
	}},
	{"Session", `avp:"Session-Id,omitempty"`, reflect.TypeOf(datatype.UTF8String("")), func(r *rand.Rand) reflect.Value {
		if r.Intn(3) == 0 {
			return reflect.ValueOf(datatype.UTF8String(""))
		}
		return reflect.ValueOf(datatype.UTF8String("s" + genStr(r)))
	}},
	{"I32", `avp:"X-Int32"`, reflect.TypeOf(int32(0)), func(r *rand.Rand) reflect.Value { return reflect.ValueOf(int32(gen32(r))) }},
	{"F64", `avp:"X-Float64"`, reflect.TypeOf(float64(0)), func(r *rand.Rand) reflect.Value { return reflect.ValueOf(genF64(r)) }},
	{"ProductName", `avp:"Product-Name"`, reflect.TypeOf(""), func(r *rand.Rand) reflect.Value { return reflect.ValueOf(genStr(r)) }},
	{"Firmware", `avp:"Firmware-Revision"`, reflect.TypeOf((*uint32)(nil)), func(r *rand.Rand) reflect.Value {
		if r.Intn(3) == 0 {
			return reflect.Zero(reflect.TypeOf((*uint32)(nil)))
		}
		return ptrTo(reflect.ValueOf(gen32(r)))
	}},
	{"Vendors", `avp:"Supported-Vendor-Id"`, reflect.TypeOf([]uint32(nil)), func(r *rand.Rand) reflect.Value {
		var c []uint32
		for i, n := 0, r.Intn(4); i < n; i++ {
			c = append(c, gen32(r))
		}
		return reflect.ValueOf(c)
	}},
	{"Opt", `avp:"X-Inner"`, reflect.TypeOf((*Inner)(nil)), func(r *rand.Rand) reflect.Value {
		if r.Intn(3) == 0 {
			return reflect.Zero(reflect.TypeOf((*Inner)(nil)))
		}
		return reflect.ValueOf(genInner(r))
	}},
	{"ErrMsg", `avp:"Error-Message,omitempty"`, reflect.TypeOf(""), func(r *rand.Rand) reflect.Value {
		if r.Intn(3) == 0 {
			return reflect.ValueOf("")
		}
		return reflect.ValueOf("e" + genStr(r))
	}},
	{"Addrs", `avp:"Host-IP-Address"`, reflect.TypeOf([]datatype.Address(nil)), func(r *rand.Rand) reflect.Value {
		var c []datatype.Address
		for i, n := 0, r.Intn(3); i < n; i++ {
			c = append(c, genAddr(r))
		}
		return reflect.ValueOf(c)
	}},
	{"Stamp", `avp:"Event-Timestamp"`, reflect.TypeOf(datatype.Time{}), func(r *rand.Rand) reflect.Value { return reflect.ValueOf(datatype.Time(genTime(r))) }},
	// omitempty on a pointer and on a slice: only a nil pointer / an empty slice is omitted - a pointer to zero and zero
	// elements of a non-empty slice are values (added after a seeded change that applied the emptiness test to them)
	{"OptInterval", `avp:"Acct-Interim-Interval,omitempty"`, reflect.TypeOf((*uint32)(nil)), func(r *rand.Rand) reflect.Value {
		switch r.Intn(3) {
		case 0:
			return reflect.Zero(reflect.TypeOf((*uint32)(nil)))
		case 1:
			return ptrTo(reflect.ValueOf(uint32(0)))
		}
		return ptrTo(reflect.ValueOf(gen32(r)))
	}},
	{"OptSecurity", `avp:"Inband-Security-Id,omitempty"`, reflect.TypeOf([]uint32(nil)), func(r *rand.Rand) reflect.Value {
		var c []uint32
		for i, n := 0, r.Intn(4); i < n; i++ {
			if r.Intn(2) == 0 {
				c = append(c, 0)
			} else {
				c = append(c, gen32(r))
			}
		}
		return reflect.ValueOf(c)
	}},
	// fields declared with a datatype type that is not the dictionary's type for the AVP but converts to it: the AVP
	// must still carry the dictionary's type (added after a seeded change that used the field's type as it was)
	{"RedirectAsUTF8", `avp:"Redirect-Host"`, reflect.TypeOf(datatype.UTF8String("")), func(r *rand.Rand) reflect.Value { return reflect.ValueOf(datatype.UTF8String("aaa://" + genStr(r))) }},
	{"LifetimeAsU64", `avp:"Authorization-Lifetime"`, reflect.TypeOf(datatype.Unsigned64(0)), func(r *rand.Rand) reflect.Value { return reflect.ValueOf(datatype.Unsigned64(gen32(r))) }},
	{"UserNameAsOctets", `avp:"User-Name"`, reflect.TypeOf(datatype.OctetString("")), func(r *rand.Rand) reflect.Value { return reflect.ValueOf(datatype.OctetString(genStr(r))) }},
}

// genLayout: a random subset of the pool in a random order, split over the outer struct and up to two embedded
// (anonymous, untagged) structs placed at random positions, one of which may itself embed another.
func genLayout(r *rand.Rand) (src interface{}, fresh func() interface{}, desc string) {
	perm := r.Perm(len(fieldPool))
	k := 2 + r.Intn(len(perm)-1)
	perm = perm[:k]
	nEmb := r.Intn(3)
	// assign each chosen field to the outer struct (0) or to embedded struct 1..nEmb
	groups := make([][]int, nEmb+1)
	for _, p := range perm {
		g := r.Intn(nEmb + 1)
		groups[g] = append(groups[g], p)
	}
	mk := func(idx []int, embedded []reflect.Type, embedAt []int) reflect.Type {
		var fs []reflect.StructField
		for i, p := range idx {
			for j, at := range embedAt {
				if at == i {
					fs = append(fs, reflect.StructField{Name: fmt.Sprintf("Emb%d", j+1), Type: embedded[j], Anonymous: true})
				}
			}
			f := fieldPool[p]
			fs = append(fs, reflect.StructField{Name: f.name, Type: f.typ, Tag: reflect.StructTag(f.tag)})
		}
		for j, at := range embedAt {
			if at >= len(idx) {
				fs = append(fs, reflect.StructField{Name: fmt.Sprintf("Emb%d", j+1), Type: embedded[j], Anonymous: true})
			}
		}
		return reflect.StructOf(fs)
	}
	var embTypes []reflect.Type
	var embAt []int
	for g := 1; g <= nEmb; g++ {
		embTypes = append(embTypes, mk(groups[g], nil, nil))
		embAt = append(embAt, r.Intn(len(groups[0])+1))
	}
	t := mk(groups[0], embTypes, embAt)
	v := reflect.New(t)
	var fill func(sv reflect.Value)
	fill = func(sv reflect.Value) {
		for i := 0; i < sv.NumField(); i++ {
			sf := sv.Type().Field(i)
			if sf.Anonymous {
				fill(sv.Field(i))
				continue
			}
			for _, f := range fieldPool {
				if f.name == sf.Name {
					sv.Field(i).Set(f.gen(r))
				}
			}
		}
	}
	fill(v.Elem())
	var names []string
	for i := 0; i < t.NumField(); i++ {
		if t.Field(i).Anonymous {
			names = append(names, fmt.Sprintf("<embedded %d fields>", t.Field(i).Type.NumField()))
		} else {
			names = append(names, t.Field(i).Name)
		}
	}
	return v.Interface(), func() interface{} { return reflect.New(t).Interface() }, strings.Join(names, ",")
}

// ---- comparison: canonical text of a value (floats by bit pattern, times to the second, nil == empty slice) -----

func canon(v reflect.Value, b *strings.Builder) {
	switch v.Kind() {
	case reflect.Ptr, reflect.Interface:
		if v.IsNil() {
			b.WriteString("nil")
			return
		}
		b.WriteString("&")
		canon(v.Elem(), b)
	case reflect.Struct:
		if t, ok := v.Interface().(time.Time); ok {
			fmt.Fprintf(b, "T%d", t.Unix())
			return
		}
		if t, ok := v.Interface().(datatype.Time); ok {
			fmt.Fprintf(b, "T%d", time.Time(t).Unix())
			return
		}
		b.WriteString("{")
		for i := 0; i < v.NumField(); i++ {
			if v.Type().Field(i).PkgPath != "" {
				continue // unexported
			}
			b.WriteString(v.Type().Field(i).Name + ":")
			canon(v.Field(i), b)
			b.WriteString(" ")
		}
		b.WriteString("}")
	case reflect.Slice:
		if v.Type().Elem().Kind() == reflect.Uint8 {
			fmt.Fprintf(b, "%x", v.Bytes())
			return
		}
		b.WriteString("[")
		for i := 0; i < v.Len(); i++ {
			canon(v.Index(i), b)
			b.WriteString(",")
		}
		b.WriteString("]")
	case reflect.Float32:
		fmt.Fprintf(b, "f%08x", math.Float32bits(float32(v.Float())))
	case reflect.Float64:
		fmt.Fprintf(b, "F%016x", math.Float64bits(v.Float()))
	case reflect.String:
		fmt.Fprintf(b, "%q", v.String())
	default:
		fmt.Fprintf(b, "%v", v.Interface())
	}
}
func canonOf(x interface{}) string {
	var b strings.Builder
	canon(reflect.ValueOf(x), &b)
	return b.String()
}

// ---- the checks ---------------------------------------------------------------------------------------------------

type failure struct {
	Type, Stage, Want, Got string
	Case                   int
}

func newMsg(d *dict.Parser) *diam.Message { return diam.NewRequest(257, 0, d) }

// roundTrip: Marshal, Unmarshal into a fresh struct directly and after a wire round trip.
func roundTrip(d *dict.Parser, src interface{}, fresh func() interface{}) (stage, want, got string) {
	defer func() {
		if p := recover(); p != nil {
			stage, want, got = "panic", "no panic", fmt.Sprint(p)
		}
	}()
	m := newMsg(d)
	if err := m.Marshal(src); err != nil {
		return "marshal", "no error", err.Error()
	}
	if st, w, g := faithful(d, m.AVP); st != "" {
		return st, w, g
	}
	want = canonOf(src)
	dst := fresh()
	if err := m.Unmarshal(dst); err != nil {
		return "unmarshal", "no error", err.Error()
	}
	if got = canonOf(dst); got != want {
		return "direct", want, got
	}
	wire, err := m.Serialize()
	if err != nil {
		return "serialize", "no error", err.Error()
	}
	if int(m.Header.MessageLength) != len(wire) {
		return "length", fmt.Sprint(len(wire)), fmt.Sprint(m.Header.MessageLength)
	}
	m2, err := diam.ReadMessage(bytes.NewReader(wire), d)
	if err != nil {
		return "read", "no error", err.Error()
	}
	dst2 := fresh()
	if err := m2.Unmarshal(dst2); err != nil {
		return "unmarshal-wire", "no error", err.Error()
	}
	if got = canonOf(dst2); got != want {
		return "wire", want, got
	}
	return "", "", ""
}

// faithful: every AVP Marshal produced carries the data type, vendor id and V flag the dictionary gives for its code
// ("the AVPs produced are those a caller would build by hand from the dictionary"), recursively.
func faithful(d *dict.Parser, avps []*diam.AVP) (stage, want, got string) {
	for _, a := range avps {
		da, err := d.FindAVPWithVendor(0, a.Code, a.VendorID)
		if err != nil {
			return "faithful-lookup", "AVP " + fmt.Sprint(a.Code) + " defined", err.Error()
		}
		if g, ok := a.Data.(*diam.GroupedAVP); ok {
			if da.Data.Type != datatype.GroupedType {
				return "faithful-type", "dictionary type " + fmt.Sprint(da.Data.Type), "a group"
			}
			if st, w, g2 := faithful(d, g.AVP); st != "" {
				return st, w, g2
			}
			continue
		}
		if a.Data.Type() != da.Data.Type {
			return "faithful-type", fmt.Sprintf("AVP %d (%s) carries data type %d", a.Code, da.Name, da.Data.Type), fmt.Sprintf("data type %d (%T)", a.Data.Type(), a.Data)
		}
		if (da.VendorID != 0) != (a.Flags&0x80 != 0) {
			return "faithful-vflag", fmt.Sprintf("V flag iff vendor (%d)", da.VendorID), fmt.Sprintf("flags %#x", a.Flags)
		}
	}
	return "", "", ""
}

// hostile: the same message with every grouped AVP re-labelled as a vendor-specific AVP of a vendor the dictionary
// does not know (so that it decodes as opaque Unknown data): Unmarshal must neither panic nor fail, it just finds
// no group there.
func hostile(d *dict.Parser, src interface{}, fresh func() interface{}) (stage, want, got string) {
	defer func() {
		if p := recover(); p != nil {
			stage, want, got = "hostile-panic", "no panic", fmt.Sprint(p)
		}
	}()
	m := newMsg(d)
	if err := m.Marshal(src); err != nil {
		return "", "", ""
	}
	m3 := newMsg(d)
	for _, a := range m.AVP {
		if g, ok := a.Data.(*diam.GroupedAVP); ok {
			m3.AddAVP(diam.NewAVP(a.Code, a.Flags|0x80, 99999, datatype.Unknown(g.Serialize())))
		} else {
			m3.AddAVP(a)
		}
	}
	wire, err := m3.Serialize()
	if err != nil {
		return "hostile-serialize", "no error", err.Error()
	}
	m4, err := diam.ReadMessage(bytes.NewReader(wire), d)
	if err != nil {
		return "hostile-read", "no error", err.Error()
	}
	if err := m4.Unmarshal(fresh()); err != nil {
		return "hostile-unmarshal", "no error", err.Error()
	}
	return "", "", ""
}

// handBuilt: the AVPs Marshal produces for Scalars are those a caller would build from the dictionary.
func handBuilt(d *dict.Parser, s *Scalars) (stage, want, got string) {
	m := newMsg(d)
	if err := m.Marshal(s); err != nil {
		return "marshal", "no error", err.Error()
	}
	t := reflect.TypeOf(*s)
	if len(m.AVP) != t.NumField() {
		return "count", fmt.Sprint(t.NumField()), fmt.Sprint(len(m.AVP))
	}
	for i := 0; i < t.NumField(); i++ {
		name := strings.Split(t.Field(i).Tag.Get("avp"), ",")[0]
		da, err := d.FindAVP(0, name)
		if err != nil {
			return "dictionary", name, err.Error()
		}
		var flags uint8
		if strings.Contains(da.Must, "M") {
			flags |= 0x40
		}
		if da.VendorID > 0 {
			flags |= 0x80
		}
		a := m.AVP[i]
		w := fmt.Sprintf("%s code=%d vendor=%d flags=%#x type=%d", name, da.Code, da.VendorID, flags, da.Data.Type)
		g := fmt.Sprintf("%s code=%d vendor=%d flags=%#x type=%d", name, a.Code, a.VendorID, a.Flags, a.Data.Type())
		if w != g {
			return "hand-built", w, g
		}
	}
	return "", "", ""
}

func main() {
	n := flag.Int("n", 300, "random cases per struct type")
	seed := flag.Int64("seed", 1, "seed")
	out := flag.String("out", "", "evidence file")
	replay := flag.String("replay", "", "replay directory")
	tier := flag.String("tier", "quick", "tier")
	flag.Parse()
	t0 := time.Now()
	d := dict.Default // the embedded dictionaries, extended in this process by the generated one
	err := d.Load(bytes.NewReader([]byte(extraDict)))
	if err != nil {
		fmt.Println("c18: cannot build the dictionary:", err)
		os.Exit(2)
	}
	r := rand.New(rand.NewSource(*seed))
	var fails []failure
	distinct := map[string]bool{}
	var samples []string
	evals := 0
	run := func(typ string, i int, src interface{}, fresh func() interface{}) {
		evals++
		c := canonOf(src)
		distinct[typ+c] = true
		if len(samples) < 3 && i == 0 {
			samples = append(samples, typ+" "+c)
		}
		if st, w, g := roundTrip(d, src, fresh); st != "" {
			fails = append(fails, failure{typ, st, w, g, i})
		}
		if st, w, g := hostile(d, src, fresh); st != "" {
			fails = append(fails, failure{typ, st, w, g, i})
		}
	}
	// corner cases first: zero values of every type
	run("Scalars", -1, &Scalars{When: time.Unix(0, 0).UTC(), Stamp: datatype.Time(time.Unix(0, 0).UTC()), Addr: genAddr(r), IP4: datatype.IPv4(net.IPv4(0, 0, 0, 0).To4())}, func() interface{} { return &Scalars{} })
	run("Shapes", -1, &Shapes{}, func() interface{} { return &Shapes{} })
	run("AVPs", -1, &AVPs{Copy: *diam.NewAVP(268, 0x40, 0, datatype.Unsigned32(0))}, func() interface{} { return &AVPs{} })
	for i := 0; i < *n; i++ {
		s := genScalars(r)
		run("Scalars", i, s, func() interface{} { return &Scalars{} })
		if st, w, g := handBuilt(d, s); st != "" {
			fails = append(fails, failure{"Scalars", st, w, g, i})
		}
		run("Shapes", i, genShapes(r), func() interface{} { return &Shapes{} })
		run("AVPs", i, genAVPs(r), func() interface{} { return &AVPs{} })
		for k := 0; k < 3; k++ {
			src, fresh, _ := genLayout(r)
			run("Layout", i, src, fresh)
		}
	}
	ev := map[string]interface{}{
		"property_id": "C18", "tier": *tier, "seed": *seed, "level": "exploration", "wall_s": time.Since(t0).Seconds(), "violations": len(fails),
		"coverage": map[string]interface{}{
			"evaluations": evals, "distinct_nontrivial": len(distinct),
			"rule": "BOUNDED stand-in, not a proof: three struct types and a generated family (Layout: a random subset of a pool of 21 tagged fields (omitempty on a pointer that may point to zero and on a slice that may hold zeros among them) (three of them declared with a datatype type that differs from, but converts to, the dictionary's type) in random order, split over the outer struct and up to two anonymous embedded structs placed at random positions, built with reflect.StructOf, three per round; Scalars: one field per data type incl. native Go scalars; Shapes: embedded struct, []T, []datatype, *T, nested group, anonymous group struct, []*struct up to 3 elements, *struct, omitempty; AVPs: *AVP, []*AVP, AVP) x generated values (zero values, corner values of every width, NaN / infinities / denormals, empty and odd-length strings, times on both sides of the 2036 era boundary, IPv4 and IPv6 addresses); each case is marshalled, unmarshalled directly and after Serialize+ReadMessage, compared by a canonical text (floats by bit pattern, times to the second, nil == empty slice); for Scalars the AVPs are also compared with the dictionary (code, vendor id, M/V flags, type); for every case every AVP Marshal produced (recursively) must carry the dictionary's data type and V flag for its code; each message is also re-read with its grouped AVPs relabelled as an unknown vendor's (opaque data) and unmarshalled, which must not panic. A case is distinct by its canonical text; every generated case is non-trivial in that all fields are set from the generator.",
			"samples": samples, "exhaustive": false,
		},
		"assumptions": []string{"bounded exploration only: " + fmt.Sprint(*n) + " random cases per struct type from the seed, slices of at most 3 elements, group nesting depth 2; reflect.go is NOT verified", "the base dictionary plus one generated dictionary (ten AVPs covering the data types the base lacks)"},
	}
	if *out != "" {
		b, _ := json.MarshalIndent(ev, "", " ")
		os.WriteFile(*out, b, 0o644)
	}
	if len(fails) > 0 {
		os.MkdirAll(*replay, 0o755)
		p := filepath.Join(*replay, "c18_case.json")
		b, _ := json.MarshalIndent(map[string]interface{}{"seed": *seed, "n": *n, "failures": fails[:min(len(fails), 5)], "rerun": "cd /verif && ./check C18 " + *tier}, "", " ")
		os.WriteFile(p, b, 0o644)
		fmt.Printf("VIOLATION property=C18 replay=%s stage=%s type=%s case=%d\n", p, fails[0].Stage, fails[0].Type, fails[0].Case)
		fmt.Printf("C18 %s (bounded): %d cases, %d failures\n", *tier, evals, len(fails))
		os.Exit(1)
	}
	fmt.Printf("C18 %s (bounded, nothing proved): %d cases explored, %d distinct, 0 violations, %.1fs\n", *tier, evals, len(distinct), time.Since(t0).Seconds())
}
