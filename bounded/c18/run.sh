#!/bin/bash
# Bounded stand-in for C18: builds the harness against /repo's working tree (or $VERIF_REPO) in a scratch module and runs it.
set -u
cd "$(dirname "$0")"
export GOFLAGS=-mod=mod GOPROXY=off GOSUMDB=off GOTOOLCHAIN=local
TIER="${1:-quick}"; REPO="${VERIF_REPO:-/repo}"; OUT="${VERIF_OUT:-/verif}"
N=300; [ "$TIER" = thorough ] && N=20000
w=$(mktemp -d /tmp/c18-XXXXXX); trap 'rm -rf "$w"' EXIT
cp main.go "$w/"; cp "$REPO/go.sum" "$w/" 2>/dev/null
cat > "$w/go.mod" <<MOD
module c18harness
go 1.21
require github.com/fiorix/go-diameter/v4 v4.0.0
replace github.com/fiorix/go-diameter/v4 => $REPO
MOD
(cd "$w" && go build -o c18 . 2>&1) || { echo "C18: harness does not build against $REPO"; echo "VIOLATION property=C18 replay=$OUT/replays/C18/build.txt no-failing-input-found"; mkdir -p "$OUT/replays/C18"; (cd "$w" && go build -o c18 . > "$OUT/replays/C18/build.txt" 2>&1); exit 1; }
mkdir -p "$OUT/evidence" "$OUT/replays/C18"
"$w/c18" -n $N -seed "${VERIF_SEED:-1}" -tier "$TIER" -out "$OUT/evidence/C18.json" -replay "$OUT/replays/C18"
